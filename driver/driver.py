"""Driver: builds libeconf from /repo's working tree, links the harness, runs
the shards, merges statistics, confirms failures by replay, writes evidence."""
import glob, hashlib, json, os, shutil, signal, struct, subprocess, sys, tempfile, time
from concurrent.futures import ThreadPoolExecutor

VERIF = os.path.dirname(os.path.dirname(os.path.abspath(__file__)))
REPO = os.environ.get("VERIF_REPO", "/repo")
BUILD = os.path.join(VERIF, "build")
SRC = os.path.join(VERIF, "src")
KNOWN = os.path.join(VERIF, "KNOWN_FINDINGS.txt")
JOBS = int(os.environ.get("VERIF_JOBS", "16"))
GUARD = "OPENSUSE_LIBECONF_VERIF"

sys.path.insert(0, os.path.dirname(os.path.abspath(__file__)))
import props  # noqa: E402

CC, CXX = "clang", "clang++"
VARIANTS = {
    # name: (cflags for library and harness, link flags)
    "asan": (["-O1", "-g", "-fno-omit-frame-pointer", "-fsanitize=address,undefined",
              "-fno-sanitize-recover=undefined"], ["-fsanitize=address,undefined"]),
    "fuzz": (["-O1", "-g", "-fno-omit-frame-pointer", "-fsanitize=fuzzer-no-link,address,undefined",
              "-fno-sanitize-recover=undefined"], ["-fsanitize=fuzzer,address,undefined"]),
    "tsan": (["-O1", "-g", "-fno-omit-frame-pointer", "-fsanitize=thread"], ["-fsanitize=thread"]),
    "o2": (["-O2", "-g"], []),
    "plain": (["-O0", "-g", "-gdwarf-4"], []),
}
LIBDEFS = ["-D_GNU_SOURCE", "-D_REENTRANT=1", "-D" + GUARD, "-std=gnu11", "-w"]


def log(*a):
    print(*a, file=sys.stderr, flush=True)


def sha(*parts):
    h = hashlib.sha1()
    for p in parts:
        h.update(p if isinstance(p, bytes) else p.encode())
        h.update(b"\0")
    return h.hexdigest()[:16]


def file_bytes(p):
    with open(p, "rb") as f:
        return f.read()


def run_cmd(cmd, **kw):
    r = subprocess.run(cmd, stdout=subprocess.PIPE, stderr=subprocess.STDOUT, **kw)
    if r.returncode != 0:
        raise RuntimeError("command failed: %s\n%s" % (" ".join(cmd), r.stdout.decode(errors="replace")))
    return r


# ---------------------------------------------------------------- builds
def common_headers():
    return sorted(glob.glob(os.path.join(SRC, "common", "*.hpp")) + glob.glob(os.path.join(SRC, "common", "*.h")))


def repo_headers():
    return sorted(glob.glob(os.path.join(REPO, "include", "*.h")))


def harness_object(srcfile, variant, defines=()):
    """compile one harness TU (cached by content hash of everything it can see)"""
    cflags, _ = VARIANTS[variant]
    deps = [srcfile] + common_headers() + repo_headers()
    key = sha(variant, " ".join(cflags), " ".join(defines), *[file_bytes(d) for d in deps])
    odir = os.path.join(BUILD, "harness", variant)
    os.makedirs(odir, exist_ok=True)
    out = os.path.join(odir, os.path.basename(srcfile).rsplit(".", 1)[0] + "-" + key + ".o")
    if os.path.exists(out):
        return out
    tmp = out + ".%d.tmp" % os.getpid()
    front = [CC, "-std=gnu11", "-Wall"] if srcfile.endswith(".c") else \
        [CXX, "-std=gnu++17", "-Wall", "-Wno-unused-function", "-Wno-deprecated-declarations"]
    cmd = front + cflags + \
          ["-D" + d for d in defines] + ["-I", os.path.join(REPO, "include"), "-I", SRC, "-c", srcfile, "-o", tmp]
    run_cmd(cmd)
    os.replace(tmp, out)
    return out


def build_lib(variant, outdir, extra_defs=()):
    """compile /repo/lib/*.c (current working tree) into outdir; returns objects"""
    cflags, _ = VARIANTS[variant]
    os.makedirs(outdir, exist_ok=True)
    srcs = sorted(glob.glob(os.path.join(REPO, "lib", "*.c")))
    objs = []

    def one(s):
        o = os.path.join(outdir, os.path.basename(s)[:-2] + ".o")
        run_cmd([CC] + cflags + LIBDEFS + list(extra_defs) +
                ["-I", os.path.join(REPO, "include"), "-I", os.path.join(REPO, "lib"), "-c", s, "-o", o])
        return o

    with ThreadPoolExecutor(max_workers=JOBS) as ex:
        objs = list(ex.map(one, srcs))
    return objs


def link(objs, out, variant, extra=()):
    _, lflags = VARIANTS[variant]
    run_cmd([CXX] + lflags + ["-o", out] + objs + list(extra))


def harness_sources(p):
    """list of (source path) for the harness of property config p"""
    return [os.path.join(SRC, s) for s in p["sources"]]


def build_harness(p, rundir, variant=None):
    variant = variant or p.get("variant", "asan")
    t0 = time.time()
    libobjs = build_lib(variant, os.path.join(rundir, "lib-" + variant))
    srcs = harness_sources(p)
    with ThreadPoolExecutor(max_workers=JOBS) as ex:
        hobjs = list(ex.map(lambda s: harness_object(s, variant), srcs))
    out = os.path.join(rundir, p["binary"] + "-" + variant)
    extra = []
    if any("engine.cpp" in s for s in srcs):
        extra.append("-lrapidcheck")
    extra += ["-lpthread", "-lutil"]
    link(hobjs + libobjs, out, variant, extra)
    log("[build] %s (%s) in %.1fs" % (os.path.basename(out), variant, time.time() - t0))
    return out


def build_econftool(rundir):
    """econftool from /repo/util/econftool.c + the ASan library objects"""
    libdir = os.path.join(rundir, "lib-asan")
    libobjs = sorted(glob.glob(os.path.join(libdir, "*.o"))) or build_lib("asan", libdir)
    cflags, lflags = VARIANTS["asan"]
    out = os.path.join(rundir, "econftool")
    run_cmd([CC] + cflags + LIBDEFS + ["-I", os.path.join(REPO, "include"), os.path.join(REPO, "util", "econftool.c")] +
            libobjs + lflags + ["-o", out])
    return out


def all_fuzzers(p):
    """explicit libFuzzer targets of a property plus the generic structure-aware one (the property's own decoder
    driven by libFuzzer: bytes = choices)"""
    fzs = list(p.get("fuzzers", []))
    if p.get("struct_fuzz"):
        fzs.append({"name": "fuzz_" + p["binary"], "define": ("VF_LIBFUZZER", "main=vf_harness_main"),
                    "engine_define": ("VF_LIBFUZZER",), "max_len": 4096, "dict": None, "corpus": None, "generic": True})
    return fzs


def build_fuzzer(p, fz, rundir):
    t0 = time.time()
    libobjs = build_lib("fuzz", os.path.join(rundir, "lib-fuzz"))
    srcs = harness_sources(p)
    objs = []
    defs = fz["define"] if isinstance(fz["define"], (tuple, list)) else (fz["define"],)
    for sfile in srcs:
        objs.append(harness_object(sfile, "fuzz", tuple(fz.get("engine_define", ())) if "engine.cpp" in sfile else tuple(defs)))
    out = os.path.join(rundir, fz["name"])
    link(objs + libobjs, out, "fuzz", ["-lrapidcheck", "-lpthread"])
    log("[build] %s (libFuzzer) in %.1fs" % (fz["name"], time.time() - t0))
    return out


def fuzz_outcome(od):
    """libFuzzer artifacts in od -> (hard, soft): crash-/leak- are violations, timeout/slow/oom are load noise"""
    hard = sorted(glob.glob(os.path.join(od, "crash-*")) + glob.glob(os.path.join(od, "leak-*")))
    soft = sorted(glob.glob(os.path.join(od, "timeout-*")) + glob.glob(os.path.join(od, "oom-*")))
    return hard, soft


def parse_fuzz_log(path):
    execs, cov, ft = 0, 0, 0
    try:
        for l in open(path, errors="replace"):
            if "stat::number_of_executed_units:" in l:
                execs = int(l.split(":")[-1])
            if " cov: " in l and " ft: " in l:
                t = l.split()
                try:
                    cov = int(t[t.index("cov:") + 1])
                    ft = int(t[t.index("ft:") + 1])
                except Exception:
                    pass
    except Exception:
        pass
    return execs, cov, ft


def setup_all():
    todo = []
    for pid, p in props.PROPS.items():
        for v in p.get("variants", sorted({p.get("variant", "asan"), p.get("modes_variant", p.get("variant", "asan"))})):
            for s in harness_sources(p):
                todo.append((s, v))
        for s, v in p.get("extra_objects", []):
            todo.append((os.path.join(SRC, s), v))
        for fz in all_fuzzers(p):
            defs = fz["define"] if isinstance(fz["define"], (tuple, list)) else (fz["define"],)
            for s in harness_sources(p):
                todo.append((s, "fuzz", tuple(fz.get("engine_define", ()))) if "engine.cpp" in s else (s, "fuzz", tuple(defs)))
        if p.get("valgrind_sample"):
            for s in harness_sources(p):
                todo.append((s, "plain"))
    todo = sorted(set(todo))
    t0 = time.time()
    with ThreadPoolExecutor(max_workers=JOBS) as ex:
        list(ex.map(lambda sv: harness_object(*sv), todo))
    log("[setup] %d harness objects ready in %.1fs" % (len(todo), time.time() - t0))
    return 0


# ---------------------------------------------------------------- running
def base_env():
    env = dict(os.environ)
    env["LC_ALL"] = "C"
    # malloc_context_size: librapidcheck has no frame pointers, so ASan's fast unwinder records garbage frames
    # below the engine and every allocation stack is unique - the stack depot then grows without bound (1.3 GB
    # after 20k cases, 3x slower). Ten frames keep the library and harness part of every stack.
    env["ASAN_OPTIONS"] = "exitcode=99:detect_leaks=0:quarantine_size_mb=16:abort_on_error=0:allocator_may_return_null=1:handle_abort=1:malloc_context_size=10"
    env["UBSAN_OPTIONS"] = "halt_on_error=1:exitcode=99:print_stacktrace=1"
    env["TSAN_OPTIONS"] = "exitcode=66:halt_on_error=0:second_deadlock_stack=1"
    env.pop("RC_PARAMS", None)
    return env


def scratch_root():
    b = os.environ.get("VERIF_SCRATCH") or "/dev/shm"
    if not os.path.isdir(b):
        b = os.environ.get("TMPDIR") or "/tmp"
    return b


class Shard:
    def __init__(self, idx, cmd, env, outdir):
        self.idx, self.cmd, self.env, self.outdir = idx, cmd, env, outdir
        self.logpath = os.path.join(outdir, "log.txt")
        self.proc = None
        self.rc = None

    def start(self):
        os.makedirs(self.outdir, exist_ok=True)
        self.logf = open(self.logpath, "wb")
        self.proc = subprocess.Popen(self.cmd, env=self.env, stdout=self.logf, stderr=subprocess.STDOUT,
                                     cwd=self.outdir, start_new_session=True)

    def kill(self):
        if self.proc and self.proc.poll() is None:
            try:
                os.killpg(self.proc.pid, signal.SIGKILL)
            except Exception:
                pass

    def log_tail(self, n=60):
        try:
            with open(self.logpath, "rb") as f:
                return b"\n".join(f.read().splitlines()[-n:]).decode(errors="replace")
        except Exception:
            return ""


def run_shards(shards, wall_limit, grace=45):
    """run all shards with at most JOBS in parallel; returns True if the wall guard fired"""
    t0 = time.time()
    fail_deadline = None
    pending = list(shards)
    running = []
    timed_out = False
    while pending or running:
        while pending and len(running) < JOBS:
            s = pending.pop(0)
            s.start()
            running.append(s)
        time.sleep(0.05)
        for s in list(running):
            rc = s.proc.poll()
            if rc is not None:
                s.rc = rc
                s.logf.close()
                running.remove(s)
                if rc != 0 and fail_deadline is None and grace is not None:
                    # a shard has found (and shrunk) a failure: the verdict is decided; give the others a short
                    # grace period to finish their own shrinking, do not start new ones
                    fail_deadline = time.time() + grace
                    for q in pending:
                        q.rc = None
                    pending = []
        if fail_deadline is not None and time.time() > fail_deadline and running:
            for s in running:
                s.kill()
            for s in running:
                s.proc.wait()
                s.rc = None
                s.logf.close()
            running = []
            break
        if time.time() - t0 > wall_limit:
            timed_out = True
            for s in running:
                s.kill()
            for s in running:
                s.proc.wait()
                s.rc = None
                s.logf.close()
            for s in pending:
                s.rc = None
            break
    return timed_out


def read_stats(d):
    try:
        with open(os.path.join(d, "stats.json")) as f:
            return json.load(f)
    except Exception:
        return None


def read_distinct(d):
    try:
        b = file_bytes(os.path.join(d, "distinct.bin"))
        return set(struct.unpack("<%dQ" % (len(b) // 8), b[: len(b) // 8 * 8]))
    except Exception:
        return set()


def replay_once(binary, case, env, isolate=False, timeout=900, extra_args=()):
    d = tempfile.mkdtemp(prefix="vf-replay-", dir=scratch_root())
    try:
        cmd = [binary, "--out", d, "--known", KNOWN] + (["--isolate"] if isolate else []) + list(extra_args) + \
              ["--replay", case]
        env = dict(env, VERIF_SCRATCH=d)
        if "ASAN_OPTIONS" in env:  # a single case: full allocation stacks in the report
            env = dict(env, ASAN_OPTIONS=env["ASAN_OPTIONS"].replace("malloc_context_size=10", "malloc_context_size=30"))
        r = subprocess.run(cmd, env=env, stdout=subprocess.PIPE, stderr=subprocess.STDOUT, cwd=d, timeout=timeout)
        return r.returncode, r.stdout.decode(errors="replace")
    except subprocess.TimeoutExpired:
        return 11, "replay timed out"
    finally:
        shutil.rmtree(d, ignore_errors=True)


RACY_ATTEMPTS = 0  # set per property (props "racy_replays"): see confirm()


def confirm(binary, case, env, extra_args=()):
    """replay three times in fresh processes; a violation only if it fails every time.
    Properties about concurrency (racy_replays=N) cannot promise that: the schedule is not part of the case. There a
    case is replayed up to N times and counts as failing when at least two attempts fail (the unchanged tree never
    fails one)."""
    outs = []
    if RACY_ATTEMPTS:
        fails = []
        for _ in range(RACY_ATTEMPTS):
            # (a replay that hangs counts as a failing one after 150 s, not after the 10x margin of a single replay)
            rc, out = replay_once(binary, case, env, timeout=150, extra_args=list(extra_args) + ["--case-timeout", "12"])
            if rc != 0:
                fails.append((rc, out))
                if len(fails) >= 2:
                    return True, fails
        return False, fails or [(0, "")]
    for _ in range(3):
        rc, out = replay_once(binary, case, env, extra_args=extra_args)
        outs.append((rc, out))
        if rc == 0:
            return False, outs
    return True, outs


def save_found(pid, casefile):
    d = os.path.join(VERIF, "replays", pid)
    os.makedirs(d, exist_ok=True)
    data = file_bytes(casefile)
    # name by symptom + rendered case, so that shards that shrank to the same input share one file
    key = b"\n".join(l for l in data.splitlines() if l.startswith(b"symptom=") or l.startswith(b"# case:")) or data
    dst = os.path.join(d, "found-%s.case" % sha(key))
    with open(dst, "wb") as f:
        f.write(data)
    return dst


def known_lines(pid):
    """finding: lines of KNOWN_FINDINGS.txt for this property -> {key: text}"""
    out = {}
    try:
        for l in open(KNOWN):
            if not l.startswith("finding:"):
                continue
            toks = l.split()
            if ("property=" + pid) not in toks:
                continue
            key = [t[4:] for t in toks if t.startswith("key=")]
            if key:
                out[key[0]] = " ".join(t for t in toks[1:] if not t.startswith("property=") and not t.startswith("key="))
    except FileNotFoundError:
        pass
    return out


def merge_stats(dirs):
    tot = {"cases": 0, "evaluations": 0, "nontrivial_cases": 0, "classes": {}, "known": {}, "samples": [],
           "notes": {}}
    distinct = set()
    for d in dirs:
        st = read_stats(d)
        if not st:
            continue
        for k in ("cases", "evaluations", "nontrivial_cases"):
            tot[k] += st.get(k, 0)
        for k, v in st.get("classes", {}).items():
            tot["classes"][k] = tot["classes"].get(k, 0) + v
        for k, v in st.get("known", {}).items():
            tot["known"][k] = tot["known"].get(k, 0) + v
        for k, v in st.get("notes", {}).items():
            tot["notes"].setdefault(k, []).append(v)
        tot["samples"].append(st.get("samples", []))
        distinct |= read_distinct(d)
    tot["distinct"] = len(distinct)
    # interleave samples of the shards, keep at most 8
    samples = []
    i = 0
    while len(samples) < 8 and any(i < len(s) for s in tot["samples"]):
        for s in tot["samples"]:
            if i < len(s) and len(samples) < 8:
                samples.append(s[i])
        i += 1
    tot["samples"] = samples
    return tot


def write_evidence(pid, p, tier, seed, tot, wall, violations, extra_cov=None, inconclusive=False, weak=None,
                   unreproduced=0):
    cases = max(tot["cases"], 1)
    cov = {
        "evaluations": int(tot["evaluations"]),
        "distinct_nontrivial": int(tot["distinct"]),
        "rule": p["rule"],
        "samples": tot["samples"] or ["<no non-trivial sample recorded>"],
        "cases": int(tot["cases"]),
        "nontrivial_cases": int(tot["nontrivial_cases"]),
        "classes": {k: round(v / cases, 4) for k, v in sorted(tot["classes"].items())},
        "class_counts": dict(sorted(tot["classes"].items())),
        "excluded_known": int(sum(tot["known"].values())),
        "known_findings_hit": tot["known"],
        "generator_weak": bool(weak),
        "weak_classes": weak or [],
        "inconclusive": bool(inconclusive),
        "unreproduced": unreproduced,
        "exhaustive": False,
    }
    if tot.get("notes"):
        cov["notes"] = tot["notes"]
    if extra_cov:
        cov.update(extra_cov)
    ev = {
        "property_id": pid, "tier": tier, "seed": seed, "level": p["level"], "coverage": cov,
        "assumptions": p.get("assumptions", []) + [
            "library objects compiled from %s/lib/*.c (working tree) with -D%s, variant %s" % (
                REPO, GUARD, p.get("variant", "asan")),
            "C locale; scratch files on tmpfs",
        ],
        "wall_s": round(wall, 2), "violations": violations,
    }
    # runs against a scratch copy (VERIF_REPO, mutant self-tests) must not overwrite the evidence of /repo
    evdir = os.path.join(VERIF, "evidence") if REPO == "/repo" else os.path.join(BUILD, "evidence-scratch")
    os.makedirs(evdir, exist_ok=True)
    tmp = os.path.join(evdir, pid + ".json.tmp")
    with open(tmp, "w") as f:
        json.dump(ev, f, indent=1, ensure_ascii=False)
        f.write("\n")
    os.replace(tmp, os.path.join(evdir, pid + ".json"))


def check_floors(p, tot):
    weak = []
    cases = max(tot["cases"], 1)
    for cls, floor in p.get("floors", {}).items():
        # floor relative to a base class: "cls|base"
        if "|" in cls:
            c, base = cls.split("|")
            denom = max(tot["classes"].get(base, 0), 1)
        else:
            c, denom = cls, cases
        frac = tot["classes"].get(c, 0) / denom
        if frac < floor:
            weak.append("%s=%.3f<%.3f" % (cls, frac, floor))
    return weak


def run_check(pid, tier, seed, failfast=True):
    global RACY_ATTEMPTS
    p = props.PROPS[pid]
    RACY_ATTEMPTS = p.get("racy_replays", 0)
    t0 = time.time()
    rundir = os.path.join(BUILD, "run", "%s-%s-%d" % (pid, tier, os.getpid()))
    shutil.rmtree(rundir, ignore_errors=True)
    os.makedirs(rundir)
    sdir = tempfile.mkdtemp(prefix="vf-%s-" % pid, dir=scratch_root())
    env = base_env()
    # the harnesses make their scratch directories below VERIF_SCRATCH: inside this run's directory, so that what a
    # killed shard leaves behind goes away with it
    env["VERIF_SCRATCH"] = sdir
    env.update(p.get("env", {}))
    violations = []  # (replay path, text)
    unreproduced = 0
    inconclusive = False
    try:
        if "custom" in p:
            # property-specific runner (fuzzers, threads, subprocess tools)
            import custom
            return getattr(custom, p["custom"])(sys.modules[__name__], pid, p, tier, seed, rundir, sdir, env, t0)
        binary = build_harness(p, rundir)
        if p.get("econftool"):
            env["VF_ECONFTOOL"] = build_econftool(rundir)
        cfg = p[tier]
        extra_args = p.get("args", [])
        # --- replay tier: committed regression cases first
        regress = sorted(glob.glob(os.path.join(VERIF, "replays", pid, "*.case")))
        regress = [c for c in regress if not os.path.basename(c).startswith("found-")]
        n_regress = len(regress)
        for c in regress:
            rc, out = replay_once(binary, c, env, extra_args=extra_args)
            if rc != 0:
                bad, outs = confirm(binary, c, env, extra_args)
                if bad:
                    violations.append((c, outs[0][1]))
        # --- generated search
        shards = []
        nsh = cfg.get("shards", JOBS)
        for k in range(nsh):
            e = dict(env)
            e["RC_PARAMS"] = "seed=%d max_success=%d max_size=%d max_discard_ratio=100" % (
                seed * 1000 + k + 1, max(1, cfg["cases"] // nsh), cfg.get("max_size", 100))
            od = os.path.join(sdir, "shard%02d" % k)
            # "isolate_shards": the first n shards run every case in a forked child of an engine process that never
            # executes a case itself, so every case meets the library's process-wide state untouched
            iso = ["--isolate"] if k < p.get("isolate_shards", 0) else []
            shards.append(Shard(k, [binary, "--out", od, "--known", KNOWN] + iso + extra_args, e, od))
        # extra modes (exhaustive drivers etc.)
        mode_binary = binary
        if cfg.get("modes") and p.get("modes_variant") and p["modes_variant"] != p.get("variant", "asan"):
            mode_binary = build_harness(p, rundir, p["modes_variant"])
        for j, m in enumerate(cfg.get("modes", [])):
            e = dict(env)
            e["VERIF_SEED"] = str(seed)
            od = os.path.join(sdir, "mode%02d" % j)
            shards.append(Shard(100 + j, [mode_binary, "--out", od, "--known", KNOWN] + extra_args + ["--mode"] + m, e, od))
        fuzz_shards = []
        for fz in (all_fuzzers(p) if cfg.get("fuzz_runs") else []):
            fbin = build_fuzzer(p, fz, rundir)
            for j in range(cfg.get("fuzz_jobs", 8)):
                od = os.path.join(sdir, "%s-%02d" % (fz["name"], j))
                cdir = os.path.join(od, "corpus")
                os.makedirs(cdir, exist_ok=True)
                # half of the jobs start from the seed corpus (+ saved regressions), half from an empty corpus
                if fz.get("corpus") and j % 2 == 0:
                    for f in glob.glob(os.path.join(VERIF, fz["corpus"], "*")):
                        shutil.copy(f, cdir)
                for f in glob.glob(os.path.join(VERIF, "replays", pid, "*." + fz["name"])):
                    if not os.path.basename(f).startswith("found-"):
                        shutil.copy(f, cdir)
                e = dict(env, VF_STATS_DIR=od, VF_KNOWN=KNOWN)
                leaks = "0" if fz.get("generic") else "1"   # leaks are C04's and C20's subject
                e["ASAN_OPTIONS"] = "detect_leaks=%s:quarantine_size_mb=16:allocator_may_return_null=1:handle_abort=1:malloc_context_size=10" % leaks
                e["UBSAN_OPTIONS"] = "halt_on_error=1:print_stacktrace=1"
                cmd = [fbin, cdir, "-seed=%d" % (seed * 100 + j + 1), "-runs=%d" % cfg["fuzz_runs"], "-max_len=%d" % fz["max_len"],
                       "-artifact_prefix=" + od + "/", "-print_final_stats=1", "-timeout=25", "-rss_limit_mb=4000",
                       "-detect_leaks=" + leaks, "-use_value_profile=1"]
                if fz.get("dict"):
                    cmd.append("-dict=" + os.path.join(VERIF, fz["dict"]))
                sh = Shard(400 + len(fuzz_shards), cmd, e, od)
                sh.fuzzer = fz
                sh.fbin = fbin
                fuzz_shards.append(sh)
                shards.append(sh)
        # start the fuzzers and the mode drivers first (with fail-fast a failing rapidcheck shard would keep them
        # from ever starting)
        first = fuzz_shards + [x for x in shards if 100 <= x.idx < 200 and not getattr(x, "fuzzer", None)]
        shards = first + [x for x in shards if x not in first]
        fill = p.get("fill_differential")
        if fill:
            # heap-fill differential (uninitialised reads): every shard runs a second time with another
            # malloc fill byte; the per-case digests of everything observed must be identical
            for sh in list(shards):
                if sh.idx >= 100:
                    continue
                sh.cmd = sh.cmd + ["--digests"]
                sh.env = dict(sh.env, ASAN_OPTIONS=sh.env["ASAN_OPTIONS"] + ":malloc_fill_byte=170:max_malloc_fill_size=1048576")
                e2 = dict(sh.env, ASAN_OPTIONS=env["ASAN_OPTIONS"] + ":malloc_fill_byte=85:max_malloc_fill_size=1048576")
                od = sh.outdir + "-fill55"
                tw = Shard(200 + sh.idx, [binary, "--out", od, "--known", KNOWN, "--digests"] + extra_args, e2, od)
                tw.twin_of = sh
                shards.append(tw)
        vg = p.get("valgrind_sample")
        if vg:
            vbin = build_harness(p, rundir, "plain")
            e = dict(env)
            e["RC_PARAMS"] = "seed=%d max_success=%d max_size=60" % (seed * 1000 + 999, vg[tier])
            od = os.path.join(sdir, "valgrind")
            shards.append(Shard(300, ["valgrind", "-q", "--error-exitcode=77", "--exit-on-first-error=yes", "--leak-check=full",
                                      "--errors-for-leak-kinds=definite", "--child-silent-after-fork=yes", vbin, "--no-isolate",
                                      "--out", od, "--known", KNOWN] + extra_args, e, od))
        timed_out = run_shards(shards, cfg.get("wall_limit", 1500 if tier == "quick" else 7200), grace=45 if failfast else None)
        if fill and not timed_out:
            for tw in [x for x in shards if getattr(x, "twin_of", None)]:
                a = tw.twin_of
                if a.rc != 0 or tw.rc != 0:
                    continue
                da = file_bytes(os.path.join(a.outdir, "digests.bin")) if os.path.exists(os.path.join(a.outdir, "digests.bin")) else b""
                db = file_bytes(os.path.join(tw.outdir, "digests.bin")) if os.path.exists(os.path.join(tw.outdir, "digests.bin")) else b""
                n = min(len(da), len(db)) // 8
                bad = next((i for i in range(n) if da[i * 8:i * 8 + 8] != db[i * 8:i * 8 + 8]), None)
                if bad is None:
                    continue
                # reproduce the generation up to that case and save it
                dd = os.path.join(a.outdir, "dump")
                subprocess.run([binary, "--out", dd, "--dump-index", str(bad)] + extra_args, env=a.env,
                               stdout=subprocess.DEVNULL, stderr=subprocess.DEVNULL, cwd=a.outdir)
                dc = os.path.join(dd, "dumped.case")
                if not os.path.exists(dc):
                    continue
                with open(dc, "a") as f:
                    f.write("symptom=uninitialised-read\n# case: heap-fill differential: digest differs between malloc_fill_byte=0xAA and 0x55\n")
                dst = save_found(pid, dc)
                digs = []
                for fb in (170, 85, 170, 85):
                    e3 = dict(env, ASAN_OPTIONS=env["ASAN_OPTIONS"] + ":malloc_fill_byte=%d:max_malloc_fill_size=1048576" % fb)
                    rc3, out3 = replay_once(binary, dst, e3, extra_args=extra_args)
                    digs.append([l for l in out3.splitlines() if l.startswith("digest=")][:1])
                if digs[0] != digs[1] and digs[2] != digs[3] and digs[0] == digs[2]:
                    if not any(v[0] == dst for v in violations):
                        violations.append((dst, "heap-fill differential: the case observes different values under malloc_fill_byte=0xAA and 0x55 "
                                                "(uninitialised memory is read)\n" + out3))
                else:
                    unreproduced += 1
                break
        if timed_out:
            inconclusive = True
            log("[warn] %s: wall-clock guard fired; run is inconclusive, not a violation" % pid)
        failed = [s for s in shards if s.rc not in (0, None) and not getattr(s, "twin_of", None) and not getattr(s, "fuzzer", None)]
        fuzz_tot = {"execs": 0, "cov": 0, "ft": 0, "parsed_with_entries": 0, "rejected_with_parse_error": 0}
        seen_fuzz_sig = set()
        for fs in fuzz_shards:
            ex_, cov_, ft_ = parse_fuzz_log(fs.logpath)
            fuzz_tot["execs"] += ex_
            fuzz_tot["cov"] = max(fuzz_tot["cov"], cov_)
            fuzz_tot["ft"] = max(fuzz_tot["ft"], ft_)
            try:
                for l in open(os.path.join(fs.outdir, "fuzzstats.txt")):
                    k, v = l.strip().split("=")
                    fuzz_tot[k] = fuzz_tot.get(k, 0) + int(v)
            except Exception:
                pass
            hard, soft = fuzz_outcome(fs.outdir)
            cands = [(a, 25) for a in hard]
            for a in soft:
                cands.append((a, 250))  # only a violation if it reproduces at 10x the limit
            for art, tmo in cands:
                sig = [l for l in fs.log_tail(400).splitlines() if l.startswith("SUMMARY:") or "ORACLE FAILURE" in l]
                sig = (sig[-1] if sig else os.path.basename(art).split("-")[0])
                fails = 0
                out = ""
                for _ in range(3):
                    r = subprocess.run([fs.fbin, "-timeout=%d" % tmo, "-rss_limit_mb=4000", art], env=fs.env, stdout=subprocess.PIPE,
                                       stderr=subprocess.STDOUT, cwd=fs.outdir)
                    out = r.stdout.decode(errors="replace")
                    fails += r.returncode != 0
                if fails < 3:
                    unreproduced += 1
                    continue
                if sig in seen_fuzz_sig:
                    continue
                seen_fuzz_sig.add(sig)
                d = os.path.join(VERIF, "replays", pid)
                os.makedirs(d, exist_ok=True)
                dst = os.path.join(d, "found-%s.%s" % (sha(file_bytes(art)), fs.fuzzer["name"]))
                shutil.copy(art, dst)
                violations.append((dst, out[-3000:]))
        # crash / hang in-process (no shrunk case): re-run up to three such shards isolated (each case in a
        # forked child) so that the crash becomes an ordinary failure that can be shrunk; in parallel, bounded
        crashed = [s for s in failed if not os.path.exists(os.path.join(s.outdir, "found.case"))
                   and os.path.exists(os.path.join(s.outdir, "current.case")) and s.idx < 100][:3]

        def iso(s):
            shr = os.path.join(s.outdir, "iso")
            try:
                subprocess.run(s.cmd[:1] + ["--out", shr, "--known", KNOWN, "--isolate"] + extra_args, env=s.env,
                               stdout=subprocess.DEVNULL, stderr=subprocess.DEVNULL, cwd=s.outdir,
                               timeout=cfg.get("shrink_timeout", 180))
            except subprocess.TimeoutExpired:
                pass
        if crashed:
            with ThreadPoolExecutor(max_workers=len(crashed)) as ex:
                list(ex.map(iso, crashed))
        seen_crash_sig = set()
        for s in failed:
            found = os.path.join(s.outdir, "found.case")
            cur = os.path.join(s.outdir, "current.case")
            isof = os.path.join(s.outdir, "iso", "found.case")
            case = None
            if os.path.exists(found):
                case = found
            elif os.path.exists(isof):
                case = isof
            elif os.path.exists(cur):
                case = cur
            if case is None:
                # a mode driver (no case file): its log is the evidence
                dst = os.path.join(VERIF, "replays", pid, "found-mode-%s.log" % sha(s.log_tail(200)))
                os.makedirs(os.path.dirname(dst), exist_ok=True)
                with open(dst, "w") as f:
                    f.write(" ".join(s.cmd) + "\n" + s.log_tail(200))
                violations.append((dst, s.log_tail(40)))
                continue
            if case == cur:
                # unshrunk crash: report one per sanitizer summary line
                sig = [l for l in s.log_tail(400).splitlines() if l.startswith("SUMMARY:")]
                sig = sig[-1] if sig else "crash"
                if sig in seen_crash_sig:
                    continue
                seen_crash_sig.add(sig)
            dst = save_found(pid, case)
            if any(v[0] == dst for v in violations):
                continue  # several shards shrank to the same case
            bad, outs = confirm(binary, dst, env, extra_args)
            hist = os.path.join(s.outdir, "found-history.case")
            if not bad and case == found and os.path.exists(hist):
                # the failure may need process-wide library state left by earlier cases of its shard (drop-in
                # directory list, restrictions): replay it behind the cases that ran before it, each attempt in a
                # fresh process, and minimise that history
                hb, _ = confirm(binary, hist, env, extra_args)
                if hb:
                    md = os.path.join(s.outdir, "hist-min")
                    try:
                        subprocess.run([binary, "--replay", hist, "--minimise", "--out", md, "--known", KNOWN] + list(extra_args),
                                       env=env, stdout=subprocess.DEVNULL, stderr=subprocess.DEVNULL, cwd=s.outdir,
                                       timeout=cfg.get("shrink_timeout", 180))
                    except subprocess.TimeoutExpired:
                        pass
                    mf = os.path.join(md, "found.case")
                    os.remove(dst)
                    dst = save_found(pid, mf if os.path.exists(mf) else hist)
                    if any(v[0] == dst for v in violations):
                        continue
                    bad, outs = confirm(binary, dst, env, extra_args)
                    if not bad and os.path.exists(mf):
                        os.remove(dst)
                        dst = save_found(pid, hist)
                        bad, outs = confirm(binary, dst, env, extra_args)
            if bad:
                violations.append((dst, outs[0][1]))
            else:
                unreproduced += 1
                log("[warn] %s: failing case %s did not reproduce on replay (harness problem, not reported)" % (pid, dst))
                # keep what the shard printed for diagnosis
                dd = os.path.join(BUILD, "unreproduced")
                os.makedirs(dd, exist_ok=True)
                with open(os.path.join(dd, "%s-%s.log" % (pid, os.path.basename(dst))), "w") as f:
                    f.write("shard %d rc=%s cmd=%s\n%s\n" % (s.idx, s.rc, " ".join(s.cmd), s.log_tail(200)))
        dirs = [s.outdir for s in shards if not getattr(s, "twin_of", None) and s.idx != 300 and
                (not getattr(s, "fuzzer", None) or s.fuzzer.get("generic"))]
        tot = merge_stats(dirs)
        if fuzz_shards:
            tot["evaluations"] += sum(parse_fuzz_log(fs.logpath)[0] for fs in fuzz_shards if not fs.fuzzer.get("generic"))
            tot["notes"]["libfuzzer"] = ["%d processes, %d executions in total, best cov=%d ft=%d; inputs parsed with entries=%d, rejected with a parse error=%d" % (
                len(fuzz_shards), fuzz_tot["execs"], fuzz_tot["cov"], fuzz_tot["ft"], fuzz_tot["parsed_with_entries"], fuzz_tot["rejected_with_parse_error"])]
        if fill:
            tot["notes"]["heap_fill_differential"] = ["every shard re-run with malloc_fill_byte=0x55 and compared case by case with the 0xAA run"]
        if vg:
            vs = read_stats(os.path.join(sdir, "valgrind"))
            tot["notes"]["valgrind_sample"] = ["%d cases under valgrind memcheck (plain -O0 build)" % (vs or {}).get("cases", 0)]
        # class floors are a statement about the rapidcheck generator; the coverage-guided fuzzer has its own distribution
        rc_dirs = [s.outdir for s in shards if not getattr(s, "twin_of", None) and s.idx != 300 and not getattr(s, "fuzzer", None)]
        weak = check_floors(p, merge_stats(rc_dirs) if fuzz_shards else tot) if not violations else []
        if weak:
            log("[warn] %s: generator below class floors: %s" % (pid, ", ".join(weak)))
        extra_cov = {"replayed_regression_cases": n_regress}
        if tot["notes"].get("exhaustive"):
            extra_cov["exhaustive_subspaces"] = tot["notes"]["exhaustive"]
        if failfast and not violations and not inconclusive and any(s.rc is None for s in shards) and \
                any(s.rc not in (0, None) for s in shards):
            # a shard failed and ended the run early, but nothing it found could be confirmed: the shards that were
            # stopped or never started may still hold a confirmable failure - run everything to the end
            log("[info] %s: a failing shard ended the run early but its failure was not confirmed; second pass without fail-fast" % pid)
            return run_check(pid, tier, seed, failfast=False)
        wall = time.time() - t0
        write_evidence(pid, p, tier, seed, tot, wall, len(violations), extra_cov, inconclusive, weak, unreproduced)
        kl = known_lines(pid)
        for k, n in sorted(tot["known"].items()):
            print("KNOWN-FINDING: property=%s key=%s cases=%d %s" % (pid, k, n, kl.get(k, "")))
        log("[%s %s] cases=%d evaluations=%d distinct_nontrivial=%d wall=%.1fs violations=%d" % (
            pid, tier, tot["cases"], tot["evaluations"], tot["distinct"], wall, len(violations)))
        for path, text in violations:
            print("VIOLATION property=%s replay=%s" % (pid, path))
            log(text[-3000:])
        sys.stdout.flush()
        return 1 if violations else 0
    finally:
        shutil.rmtree(sdir, ignore_errors=True)
        shutil.rmtree(rundir, ignore_errors=True)


def run_replay(pid, case):
    global RACY_ATTEMPTS
    p = props.PROPS[pid]
    RACY_ATTEMPTS = p.get("racy_replays", 0)
    rundir = os.path.join(BUILD, "run", "%s-replay-%d" % (pid, os.getpid()))
    os.makedirs(rundir, exist_ok=True)
    try:
        env = base_env()
        env.update(p.get("env", {}))
        if "custom" in p:
            import custom
            return getattr(custom, p["custom"] + "_replay")(sys.modules[__name__], pid, p, case, rundir, env)
        for fz in all_fuzzers(p):
            if case.endswith("." + fz["name"]):
                fbin = build_fuzzer(p, fz, rundir)
                e = dict(env, ASAN_OPTIONS="detect_leaks=1:quarantine_size_mb=16:allocator_may_return_null=1")
                r = subprocess.run([fbin, "-timeout=250", os.path.abspath(case)], env=e, stdout=subprocess.PIPE, stderr=subprocess.STDOUT)
                print(r.stdout.decode(errors="replace")[-4000:])
                if r.returncode != 0:
                    print("VIOLATION property=%s replay=%s" % (pid, case))
                    return 1
                return 0
        binary = build_harness(p, rundir)
        if p.get("econftool"):
            env["VF_ECONFTOOL"] = build_econftool(rundir)
        if RACY_ATTEMPTS:
            bad, outs = confirm(binary, os.path.abspath(case), env, p.get("args", []))
            print(outs[0][1])
            print("(%d replays, the schedule is not part of the case)" % RACY_ATTEMPTS if not bad else "(failed in two replays)")
            rc = 10 if bad else 0
        else:
            rc, out = replay_once(binary, os.path.abspath(case), env, extra_args=p.get("args", []))
            print(out)
        if rc != 0:
            print("VIOLATION property=%s replay=%s" % (pid, case))
            return 1
        return 0
    finally:
        shutil.rmtree(rundir, ignore_errors=True)


def baseline_off():
    """repository suite with the hook guard off, in a scratch copy (build dir directly under the source root)"""
    d = tempfile.mkdtemp(prefix="vf-baseline-", dir=os.environ.get("TMPDIR") or "/tmp")
    try:
        dst = os.path.join(d, "repo")
        shutil.copytree(REPO, dst, symlinks=True, ignore=shutil.ignore_patterns("_build", ".git"))
        b = os.path.join(dst, "_build")
        subprocess.check_call(["cmake", "-G", "Ninja", "-DCMAKE_BUILD_TYPE=RelWithDebInfo", "-DBUILD_TESTING=ON", "-S", dst, "-B", b], stdout=subprocess.DEVNULL)
        subprocess.check_call(["cmake", "--build", b], stdout=subprocess.DEVNULL)
        # the test executables are EXCLUDE_FROM_ALL (upstream builds them through "make check")
        tl = subprocess.run(["ninja", "-C", b, "-t", "targets", "all"], stdout=subprocess.PIPE).stdout.decode()
        names = sorted({l.split(":")[0] for l in tl.splitlines() if l.startswith("tst-") and l.endswith(": phony")})
        if names:
            subprocess.check_call(["cmake", "--build", b, "--target"] + names, stdout=subprocess.DEVNULL)
        r = subprocess.run(["ctest", "--test-dir", b, "-j8", "--timeout", "900"], stdout=subprocess.PIPE,
                           stderr=subprocess.STDOUT)
        out = r.stdout.decode(errors="replace")
        print(out[-2500:])
        if r.returncode != 0:
            # under heavy parallel load a test was seen to fail once without cause; a genuine failure fails again
            r = subprocess.run(["ctest", "--test-dir", b, "--rerun-failed", "--timeout", "900", "--output-on-failure"],
                               stdout=subprocess.PIPE, stderr=subprocess.STDOUT)
            print("--- re-run of the failed tests ---")
            print(r.stdout.decode(errors="replace")[-2500:])
        return r.returncode
    finally:
        shutil.rmtree(d, ignore_errors=True)


def main(argv):
    if not argv or argv[0] in ("-h", "--help"):
        print(__doc__ or "usage: check <ID> [--tier quick|thorough] [--replay FILE]")
        return 2
    if argv[0] == "--setup":
        return setup_all()
    if argv[0] == "--baseline-off":
        return baseline_off()
    pid = argv[0]
    if pid not in props.PROPS:
        print("unknown property %s" % pid)
        return 2
    tier = os.environ.get("VERIF_TIER", "quick")
    seed = int(os.environ.get("VERIF_SEED", "1") or "1")
    replay = None
    i = 1
    while i < len(argv):
        if argv[i] == "--tier":
            tier = argv[i + 1]
            i += 2
        elif argv[i] == "--seed":
            seed = int(argv[i + 1])
            i += 2
        elif argv[i] == "--replay":
            replay = argv[i + 1]
            i += 2
        else:
            print("unknown argument", argv[i])
            return 2
    if tier not in ("quick", "thorough"):
        tier = "quick"
    if seed <= 0:
        seed = 1
    if replay:
        return run_replay(pid, replay)
    return run_check(pid, tier, seed)
