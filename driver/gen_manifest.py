#!/usr/bin/env python3
"""Regenerates /verif/MANIFEST.json from driver/props.py (single source of truth)."""
import json, os, sys
sys.path.insert(0, os.path.dirname(os.path.abspath(__file__)))
import props

def human(n):
    if n >= 1000000:
        return ("%.1fM" % (n / 1e6)).replace(".0M", "M")
    if n >= 1000:
        return ("%.1fk" % (n / 1e3)).replace(".0k", "k")
    return str(n)


def fill_counts(p):
    """{q}/{t} in a level text = the case budgets of the two tiers (so the text cannot go stale)"""
    return p["level_text"].replace("{q}", human(p["quick"].get("cases", 0))).replace("{t}", human(p["thorough"].get("cases", 0)))


VERIF = os.path.dirname(os.path.dirname(os.path.abspath(__file__)))
all_ids = [json.loads(l)["id"] for l in open(os.path.join(VERIF, "properties.jsonl"))]
checks = []
for pid in all_ids:
    p = props.PROPS.get(pid)
    if not p or p.get("unclaimed"):
        continue
    checks.append({
        "property_id": pid,
        "quick_cmd": "./check %s --tier quick" % pid,
        "thorough_cmd": "./check %s --tier thorough" % pid,
        "evidence_file": "/verif/evidence/%s.json" % pid,
        "replay_cmd_template": "./check %s --replay {path}" % pid,
        "engine": p.get("engine", "rapidcheck-choice-sequences"),
        "level_claimed": {"category": p["level"], "text": fill_counts(p), "design_ref": p.get("design_ref", "DESIGN.md section 7, " + pid)},
        "level_note": p["level_note"],
        "technique": p["technique"],
    })
na = [{"property_id": pid, "reason": props.NOT_APPLICABLE.get(pid, "check not built yet (work in progress)")}
      for pid in all_ids if pid not in [c["property_id"] for c in checks]]
m = {
    "version": 1,
    "setup_cmd": "./check --setup",
    "hooks": {
        "guard": "OPENSUSE_LIBECONF_VERIF",
        "enable": "every check compiles /repo/lib/*.c itself with -DOPENSUSE_LIBECONF_VERIF (no hook code exists in /repo; the define is reserved)",
        "baseline_off_cmd": "./check --baseline-off",
        "source_commits": [],
        "add_only": True,
    },
    "engines": props.ENGINES,
    "checks": checks,
    "notes": props.NOTES,
    "not_applicable": na,
}
with open(os.path.join(VERIF, "MANIFEST.json"), "w") as f:
    json.dump(m, f, indent=1)
    f.write("\n")
print("MANIFEST.json: %d checks, %d not claimed" % (len(checks), len(na)))
