"""Per-property configuration of the checks (budgets are case counts, never time)."""

ENGINE = "common/engine.cpp"


def pbt(binary, src, **kw):
    d = {"binary": binary, "sources": [ENGINE, src] + list(kw.pop("extra_sources", [])), "variant": "asan",
         "level": "exploration"}
    d.update(kw)
    return d


PROPS = {}
NOT_APPLICABLE = {}
ENGINES = [
    {"name": "rapidcheck-choice-sequences", "path": "src/common/engine.cpp",
     "serves_properties": [],
     "kind_free_text": "rapidcheck generates a sequence of 32-bit choices per case (seeded through RC_PARAMS); each "
                       "property decodes it into a structured input (file AST, tree, call history, fault position), "
                       "runs libeconf (built from /repo with ASan+UBSan) and checks an explicit oracle; failures are "
                       "shrunk on the choice sequence (span deletion, zeroing, bisection) and saved as replay files"},
]
NOTES = ("All checks: ./check <ID> --tier quick|thorough. Budgets are case counts. Evidence is rewritten on every run. "
         "See DESIGN.md.")

PROPS["C02"] = pbt(
    "pbt_c02", "pbt_c02.cpp", struct_fuzz=True,
    rule=("files printed from an AST of the conventional grammar (DESIGN 5.1) x 7 delimiter sets x 3 comment sets; "
          "non-trivial = at least one entry and two different adjacent line kinds; distinct = hash of the line-kind "
          "skeleton (kind, indentation, quoting, separator form, trailing comment per line) + delimiter/comment set, "
          "random text excluded"),
    technique="property-based testing: grammar-generated files, construct-then-parse oracle (the AST), rapidcheck",
    level_text=("generated search: files are printed from a random AST of the conventional grammar, so the expected "
                "sections/keys/values are known by construction; {q} (quick) / {t} (thorough) files over all 21 "
                "delimiter x comment configurations, class floors enforced. Shows presence of violations, not absence."),
    level_note="trusts the grammar printer and the model in src/common (not the parser); C locale; tmpfs scratch",
    quick={"cases": 960000},
    thorough={"cases": 16000000, "fuzz_runs": 1500000, "fuzz_jobs": 8},
    floors={"delim_nonblank": 0.10, "delim_blank": 0.10, "delim_mixed": 0.10, "delim_none": 0.05,
            "quoted": 0.15, "trailing_comment": 0.15, "continuation": 0.08, "duplicate_key": 0.10,
            "reopened_section": 0.01, "keyless_section": 0.05, "empty_value": 0.10, "no_final_newline": 0.08,
            "groupless_and_sections": 0.15},
)

PROPS["C05"] = pbt(
    "pbt_c05", "pbt_c05.cpp", struct_fuzz=True,
    rule=("F = conventional single-line-value file (DESIGN 5.1 without continuation lines) over all delimiter and "
          "comment sets; 1-6 wild comment lines (blank* c text, text over the full printable alphabet incl. comment "
          "characters, delimiters, quotes, brackets) inserted at arbitrary positions, >=50% directly after an entry; "
          "three reads per case (F, F+insertions, F minus its comment lines), each compared with the AST model; "
          "non-trivial = an inserted line directly follows an entry, or has >=2 comment characters, or contains a "
          "delimiter/quote/bracket; distinct = file skeleton + insertion positions + character-class profile of the "
          "inserted lines"),
    technique="property-based testing: metamorphic relation kv(F) = kv(F + comment lines) = kv(F - comment lines), plus AST oracle",
    level_text=("generated search with a metamorphic oracle: inserting or deleting comment lines must leave sections, "
                "keys and values unchanged; all three variants are additionally compared with the AST the file was "
                "printed from. {q} (quick) / {t} (thorough) file triples."),
    level_note="trusts the grammar printer/model in src/common; comments and line numbers are excluded from the comparison (they legitimately move)",
    quick={"cases": 800000},
    thorough={"cases": 8000000, "fuzz_runs": 800000, "fuzz_jobs": 8},
    floors={"indented_insert": 0.30, "second_comment_char": 0.30, "insert_after_entry": 0.30,
            "delim_nonblank": 0.10, "delim_blank": 0.08, "delim_mixed": 0.08, "delim_none": 0.04, "opt_python": 0.05, "opt_join": 0.05},
)

PROPS["C03"] = pbt(
    "pbt_c03", "pbt_c03.cpp", struct_fuzz=True,
    rule=("(i) bounded-exhaustive: every ordered pair of entry lists of length <= L (L=3 quick: 259^2 pairs, L=4 "
          "thorough: 1555^2 pairs) over {group-less,A,B} x {x,y}, realised through the setters (no duplicate) or by "
          "printing+parsing (group-less entries leading); pairs needing both are counted as unrealisable; (ii) the four "
          "kinds of empty object on either side against all lists of length <= 2; (iii) random larger pairs (<=30 "
          "entries, 6 sections, 6 keys, empty and multi-line values). Oracle M1-M7 of DESIGN 6.2. non-trivial = one "
          "side empty or the two share a section; distinct = pair index (exhaustive) / hash of both (section,key) sequences"),
    technique="bounded-exhaustive enumeration + property-based testing against a reference merge specification (M1-M7), rapidcheck",
    level_text=("every pair of small entry lists is enumerated (complete for the stated sub-space, reported under "
                "exhaustive_subspaces), larger pairs are sampled; each result is checked against the declarative merge "
                "specification (visible values, nothing invented, multiplicities, key and section order, inputs "
                "unchanged, result independent of freed inputs)."),
    level_note="trusts the specification M1-M7 as transcription of the property; objects are built only through the public API",
    quick={"cases": 400000, "modes": [["exh", "3", str(k), "16"] for k in range(16)] + [["empties"]]},
    thorough={"cases": 3000000, "fuzz_runs": 600000, "fuzz_jobs": 8, "modes": [["exh", "4", str(k), "16"] for k in range(16)] + [["empties"]]},
    floors={"base_reopens_section": 0.10, "override_only_groupless": 0.10, "base_nonleading_groupless": 0.08},
)

PROPS["C01"] = pbt(
    "pbt_c01", "pbt_c01.cpp", struct_fuzz=True,
    rule=("trees of DESIGN 5.3 (3 default layers under ROOT_PREFIX or 1-4 explicit PARSING_DIRS layers; main file "
          "absent/regular/empty/link to /dev/null/link to a regular file per layer; drop-in directories for the "
          "effective and for distractor postfixes; names with byte-order-sensitive prefixes, without suffix, suffix "
          "only, dot files, the main file's own name) x parameter shapes (project NULL, suffix with/without dot/NULL/"
          "empty, drop-ins only, CONFIG_DIRS, process-wide list); contents merge-tame with origin-tagged values; "
          "oracle = layered lookup model (DESIGN 6.3) folded with the reference merge; non-trivial = >=2 consulted "
          "files, or main file in >=2 layers, or a masked drop-in, or NOFILE despite distractor files; distinct = hash "
          "of presence pattern + names + parameter shape (values excluded)"),
    technique="property-based testing: generated configuration trees against a reference model of the layered lookup, rapidcheck",
    level_text=("generated search: every tree is built from a model, so the expected merged configuration, the "
                "sequence of consulted files (checked through the callback) and the NOFILE cases are known by "
                "construction. {q} (quick) / {t} (thorough) trees with class floors on every shape the quantifier names."),
    level_note="trusts the lookup model and reference merge in src/common/gen_tree.hpp; real /run and /etc only for the nothing-exists case",
    quick={"cases": 480000},
    thorough={"cases": 5000000, "fuzz_runs": 400000, "fuzz_jobs": 8},
    floors={"masked_dropin": 0.10, "no_main": 0.15, "no_main_first_masked": 0.01, "empty_or_devnull_main": 0.08,
            "empty_main_sectioned_first_dropin": 0.01, "main_in_2_layers": 0.15, "byteorder_sensitive_names": 0.10,
            "suffix_without_dot": 0.25, "suffix_absent": 0.05, "dropins_only": 0.08, "parsing_dirs": 0.15,
            "config_dirs_or_global": 0.10, "nofile": 0.03},
)

PROPS["C13"] = pbt(
    "pbt_c13", "pbt_c13.cpp", struct_fuzz=True, level="fault_enumeration",
    rule=("conventional file (DESIGN 5.1, all delimiter/comment sets) + one injected malformed line of a kind in "
          "{'[name', '[name] text', '[]', 'key text' (non-blank delimiter sets only, not directly after an entry)} at a "
          "generated position, later lines arbitrary and possibly malformed too; standalone (econf_readFile / "
          "WithCallback) or as content of a consulted regular file of a C01 tree (readConfig / WithCallback); plus "
          "missing files and the complete message table 0..24 and out-of-range codes. Oracle: code of the kind, "
          "econf_errLocation = (that file, that line), nothing handed back. non-trivial = injected line not first, or "
          "victim is a drop-in; distinct = (kind, line, file skeleton / tree shape, victim index)"),
    technique="fault injection into generated files/trees: the injected line determines (code, path, line); rapidcheck",
    level_text=("fault enumeration by generation: each of the four malformed-line kinds is injected at generated "
                "positions of generated files, alone and as any regular member of a layered tree; the expected error "
                "code, file and line follow from the injection. {q} (quick) / {t} (thorough) cases; message table exhaustive."),
    level_note="trusts the injector (position rules of DESIGN 5.1) and the lookup model for the tree part",
    quick={"cases": 600000},
    thorough={"cases": 6000000, "fuzz_runs": 800000, "fuzz_jobs": 8},
    floors={"kind_missing_bracket": 0.12, "kind_text_after_section": 0.12, "kind_empty_section_name": 0.12,
            "kind_missing_delimiter": 0.03, "kind_missing_delimiter_later": 0.03, "directly_after_entry": 0.07, "not_first_line": 0.30, "tree_member": 0.20, "in_dropin": 0.10},
)

PROPS["C06"] = pbt(
    "pbt_c06", "pbt_c06.cpp", struct_fuzz=True, level="fault_enumeration",
    rule=("trees of C01 (<=6 consulted files) x the four callback entry points (readFileWithCallback on a single "
          "consulted file, readDirsWithCallback / readDirsHistoryWithCallback on two-directory trees, "
          "readConfigWithCallback on all) x {no rejection, EVERY singleton rejection set, two random larger sets} x "
          "a generated callback-data pointer. Every consulted file initially holds decoy content which the callback "
          "replaces by the real content when it accepts the path, so content used before the check or despite a "
          "rejection shows up as DECOY keys. evaluations = guarded reads; non-trivial = tree with >=2 consulted "
          "files; distinct = (tree shape, entry point)"),
    technique="fault enumeration over generated trees: reject each consulted file in turn; decoy-content swap inside the callback; rapidcheck",
    level_text=("every consulted file of every generated tree is rejected in turn (plus the empty and two larger "
                "sets); the callback log must be the prefix of the modelled consultation order up to the first "
                "rejection, the data pointer must arrive unchanged, no decoy content may be visible, and a rejection "
                "must yield the callback-failed code and no configuration/history."),
    level_note="trusts the lookup model; a key-less object left by the two-directory entry points after a failure is accepted (see DESIGN C06)",
    quick={"cases": 160000},
    thorough={"cases": 1200000, "fuzz_runs": 200000, "fuzz_jobs": 8},
    floors={"with_rejection": 0.50, "rejected_not_first": 0.25, "rejected_masked": 0.03,
            "ep_readDirsWithCallback": 0.12, "ep_readDirsHistoryWithCallback": 0.12, "ep_readFileWithCallback": 0.08},
)

PROPS["C12"] = pbt(
    "pbt_c12", "pbt_c12.cpp", struct_fuzz=True,
    rule=("two-layer trees (econf_readDirs, ...WithCallback, econf_readConfig and ...WithCallback configured with "
          "PARSING_DIRS=<d1>:<d2>, econf_readDirsHistory and ...WithCallback) and three-layer trees (default scheme "
          "under ROOT_PREFIX vs. explicit PARSING_DIRS, with and without callback) x suffix spellings x NULL/empty "
          "directory arguments x process-wide postfix list. Oracle: identical return codes and key/value dumps; "
          "history members = modelled consulted files in order, each with its own path and the content of an "
          "independent econf_readFile (and of the generated file); left fold of the members with the public "
          "econf_mergeFiles, skipping members with a later namesake, equals the econf_readDirs result. "
          "non-trivial = >=2 consulted files; distinct = tree shape + parameter shape"),
    technique="property-based differential testing between six entry points + replayed history fold, rapidcheck",
    level_text=("differential oracle between the public entry points on generated trees plus an independent "
                "reconstruction of the result from the history with the public merge. {q} (quick) / {t} (thorough) "
                "trees, 4-8 reads each."),
    level_note="trusts the lookup model for the expected member list; entry points are compared with each other, not with a model",
    quick={"cases": 160000},
    thorough={"cases": 1200000, "fuzz_runs": 150000, "fuzz_jobs": 8},
    floors={"masked_member": 0.06, "null_or_empty_dir_arg": 0.05, "global_postfix_list": 0.08, "three_layers": 0.25},
)

PROPS["C16"] = pbt(
    "pbt_c16", "pbt_c16.cpp", struct_fuzz=True,
    rule=("trees of C01 (<=5 consulted files) x per consulted file (owner matching/foreign, group matching/foreign, "
          "regular/symlink; links and their targets get the same ownership) x active subset of {required owner in "
          "{0,4242}, required group in {0,4343}, no-symlink} x entry point in {readConfig, readConfigWithCallback, "
          "readDirs, readDirsWithCallback, readDirsHistory, readFile}; every case is read twice: restricted, then "
          "after econf_reset_security_settings(). Oracle: the first consulted file (model order) violating an active "
          "rule decides the code (any of the rules it violates), nothing is handed back; without offender and after "
          "the reset the C01 result. non-trivial = a rule is active and the offender is not the first consulted file; "
          "distinct = tree shape + entry point + rule set + offender index"),
    technique="property-based testing with a first-offender model over generated ownership/symlink assignments (chown as root), rapidcheck",
    level_text=("generated search over ownership/symlink assignments on generated trees, model = first offending "
                "consulted file decides; {q} (quick) / {t} (thorough) cases, two reads each; requires root for the "
                "foreign-owner half (evidence says so if not)."),
    level_note="trusts the lookup model for the consultation order; runs as root in this sandbox (chown/lchown)",
    quick={"cases": 400000},
    thorough={"cases": 2000000, "fuzz_runs": 200000, "fuzz_jobs": 8},
    floors={"has_offender": 0.30, "offender_is_dropin": 0.15, "offender_is_masked": 0.004, "symlink_rule": 0.30,
            "offender_not_first": 0.08},
)

PROPS["C17"] = pbt(
    "pbt_c17", "pbt_c17.cpp", struct_fuzz=True,
    rule=("conventional files (DESIGN 5.1; non-blank and blank-only delimiter sets, all comment sets) with comment "
          "blocks before keys (attached and detached), trailing comments, multi-line values, sections; read by "
          "absolute name and by names relative to the working directory (f, ./f, sub/../f). Oracle from the AST: "
          "file, line number of the entry's last physical line, comment_before (validity predicate: sub-sequence of "
          "the comment lines since the previous entry ending with the directly preceding block), comment_after "
          "(exact for single-line entries, non-empty items for multi-line ones), values (blank-trimmed lines, a "
          "quoted value one item), econf_getPath (absolute; '' for a merge result). non-trivial = comment block of "
          ">=2 lines, a multi-line value, or a trailing comment on a continuation line; distinct = file skeleton + "
          "naming mode"),
    technique="property-based testing: grammar-generated files with provenance carried by the AST, rapidcheck",
    level_text=("generated search; the AST records for every entry its physical lines, the comment lines before it "
                "and the trailing comment of each of its lines, so every field of the extended value has a known "
                "expected value. {q} (quick) / {t} (thorough) files."),
    level_note="trusts the grammar printer; detached comment blocks may or may not be carried along (property leaves it open)",
    quick={"cases": 1000000},
    thorough={"cases": 10000000, "fuzz_runs": 800000, "fuzz_jobs": 8},
    floors={"relative_name": 0.20, "detached_comment_block": 0.08, "trailing_comment_on_continuation": 0.03,
            "comment_block_2plus": 0.08, "continuation": 0.10},
)

PROPS["C15"] = pbt(
    "pbt_c15", "pbt_c15.cpp", struct_fuzz=True,
    rule=("three sub-checks: JOIN grammar files (small key universe, 1-5 definitions per key, single/multi-line, 1/4 "
          "empty definitions, re-opened sections) read with and without JOIN_SAME_ENTRIES (also spelled =0); PYTHON "
          "grammar files (indented lines with delimiters/comment characters, comment characters after values) read "
          "with PYTHON_STYLE=1; option strings of 0-5 documented items (repeated, any order; 35% with one unknown or "
          "misspelt item) whose effect is observed through a probe tree in which every PARSING_DIRS / ROOT_PREFIX / "
          "CONFIG_DIRS candidate selects different files and a probe file with a repeated key and an indented x=y "
          "line. non-trivial = key with >=3 definitions / indented line with delimiter or comment char / repeated or "
          "unknown item; distinct = structural hash per sub-check"),
    technique="property-based testing with option-specific grammars and AST-derived expected value lists; probe reads for option effects; rapidcheck",
    level_text=("generated search over the two option-specific grammars and over option strings; expected value "
                "lists follow from the AST, option effects (last occurrence wins) are observed through probe reads. "
                "{q} (quick) / {t} (thorough) cases."),
    level_note="empty items (a;;b) and values other than 0/1 are undocumented either way and not generated",
    quick={"cases": 800000},
    thorough={"cases": 8000000, "fuzz_runs": 800000, "fuzz_jobs": 8},
    floors={"key_with_3plus_definitions|sub_join": 0.15, "reset_in_the_middle|sub_join": 0.07,
            "indented_line_with_delimiter|sub_python": 0.20, "repeated_item|sub_options": 0.20,
            "unknown_item|sub_options": 0.20},
)

PROPS["C07"] = pbt(
    "pbt_c07", "pbt_c07.cpp", struct_fuzz=True,
    rule=("(a) setter histories (<=40 typed/string sets over sections {NULL,'',A,[A],B,[B],'Sec C','[Sec C]'} and 8 "
          "keys incl. a long and a UTF-8 key, values of DESIGN 5.4 incl. empty and multi-line) on econf_newKeyFile / "
          "econf_newIniFile / econf_newKeyFile_with_options; (b) parsed conventional files restricted to DESIGN 5.4 "
          "(quoted values, comments, continuation lines), optionally re-tagged; delimiter tag in {=,:,space} x "
          "comment tag in {#,;}. Oracle: write, read back with the same characters, DESIGN 5.4 equality (key-bearing "
          "sections as a set, key sequence per section, values byte-exact / multi-line as trimmed line lists, comments "
          "of single-line entries). non-trivial = >=2 key-bearing sections, or a quoted value, comment or multi-line "
          "value; distinct = (section,key) sequence or file skeleton + tags"),
    technique="property-based round-trip testing (write -> read) over setter histories and parsed files, rapidcheck",
    level_text=("generated search with a round-trip oracle over the write-safe domain of DESIGN 5.4; {q} (quick) / "
                "{t} (thorough) objects, all six tag combinations, both ways of building an object."),
    level_note="domain restricted to values with an unambiguous textual form (DESIGN 5.4); section order and key-less sections are not compared",
    quick={"cases": 800000},
    thorough={"cases": 8000000, "fuzz_runs": 800000, "fuzz_jobs": 8},
    floors={"reopened_section_by_setters": 0.10, "groupless_after_section": 0.10, "overwritten_key": 0.12,
            "read_quoted": 0.08, "comments": 0.15, "d_space": 0.25, "d_eq": 0.25, "d_colon": 0.25, "c_hash": 0.40,
            "c_semicolon": 0.40},
)

PROPS["C11"] = pbt(
    "pbt_c11", "pbt_c11.cpp", struct_fuzz=True,
    rule=("model-based (stateful) runs of up to 60 commands from five start states (econf_newKeyFile, econf_newIniFile, "
          "econf_newKeyFile_with_options, a parsed conventional file, a merge result); commands: string/int/uint/bool "
          "setters, string/int getters, string/int defaulted getters, section and key listings, refused calls (no "
          "object, NULL/empty key), over sections {NULL,'',A,[A],B,[B],'Sec C','[Sec C]'} x 8 keys; a reference ordered "
          "map runs in parallel and every return code and out-value is compared after every step, the full listing at "
          "intervals and at the end. evaluations = commands; non-trivial = run creates >8 entries, overwrites a key, "
          "or uses both spellings of one section; distinct = hash of the command/section sequence"),
    technique="stateful (model-based) property testing against a reference ordered map, rapidcheck",
    level_text=("model-based testing of call histories: {q} (quick) / {t} (thorough) runs of up to ~60 commands; the "
                "model is the ordered map of DESIGN 6.1."),
    level_note="int getter results are only compared for plain decimal literals (conversions are C09's subject)",
    quick={"cases": 600000},
    thorough={"cases": 6000000, "fuzz_runs": 800000, "fuzz_jobs": 8},
    floors={"grew_past_8_entries": 0.15, "overwrote_key": 0.20, "both_section_spellings": 0.20,
            "start_parsed file": 0.15, "start_merge result": 0.08},
)

PROPS["C10"] = pbt(
    "pbt_c10", "pbt_c10.cpp", struct_fuzz=True,
    rule=("an object (parsed conventional file with bare keys plus lines carrying tempting values - mixed-case boolean "
          "words, numbers in three bases, junk; or built by setters; or a merge result) and 1-40 read-only calls: all 8 "
          "typed getters, all 8 defaulted getters, the extended getter, both listings, path and tag queries, "
          "econf_writeFile, use as base or as override of econf_mergeFiles (result queried and freed), on existing and "
          "missing keys with plain and bracketed section names. Oracle: byte-exact full dump (listing, string values "
          "with NULL kept apart from '', every extended-value field, tags, path, bytes of a written file) before = "
          "after; same for the merge partner. evaluations = queries; non-trivial = the sequence contains a failing "
          "getter, a boolean getter on text with an upper-case letter, or a merge; distinct = hash of the query sequence"),
    technique="property-based testing of read-only call sequences with a before/after dump invariant, rapidcheck",
    level_text="generated search over objects and query sequences with a state-invariance oracle; {q} (quick) / {t} (thorough) objects, ~20 queries each.",
    level_note="the dump is taken through the public API and the writer only",
    quick={"cases": 900000},
    thorough={"cases": 6000000, "fuzz_runs": 500000, "fuzz_jobs": 8},
    floors={"failing_getter": 0.20, "bool_getter_on_mixed_case": 0.15, "used_in_merge": 0.20, "key_without_value": 0.10},
)

def _c08_modes(stride, nsh):
    m = [["bounds"]]
    for t in ("int32", "uint32", "float"):
        for k in range(nsh):
            m.append(["exh", t, str(k), str(nsh), str(stride)])
    return m


PROPS["C08"] = pbt(
    "pbt_c08", "pbt_c08.cpp", modes_variant="o2", extra_sources=["common/cshim.c"],
    rule=("in-memory set->get for 32-bit patterns of int32, uint32 and float: every 256th pattern with a "
          "seed-dependent offset (quick), EVERY pattern (thorough, exhaustive: 3 x 2^32); boundary families of all six "
          "numeric types (type limits +-2, 2^k, 2^k+-1, 10^k+-1, single-bit patterns, smallest/largest normal and "
          "subnormal magnitudes, +-0, +-inf, NaN) and every letter-case variant of the boolean words, in memory and "
          "through a written file; rapidcheck batches of random 64-bit patterns (exponents spread, subnormals "
          "forced) through all six set/get pairs and objects of 20-220 typed keys written and read back. "
          "evaluations = values tried; non-trivial: every batch/sub-run (values outside {0,+-1} dominate); distinct = "
          "hash of the batch / sub-run id"),
    technique="exhaustive / strided enumeration of 32-bit types + property-based round-trip testing of 64-bit types and file round trips, rapidcheck",
    level_text=("round-trip oracle (set -> get, set -> write -> read -> get) with bit-pattern equality (NaN == NaN). "
                "Thorough enumerates all 2^32 values of int32, uint32 and float (reported under exhaustive_subspaces "
                "with exact counts); 64-bit types are sampled: boundary families + 2M/200M random patterns."),
    level_note="exhaustive loops run against an -O2 build of /repo's sources without sanitizers; the sampled parts under ASan+UBSan",
    quick={"cases": 120000, "modes": _c08_modes(256, 4)},
    thorough={"cases": 600000, "modes": _c08_modes(1, 16)},
    floors={"subnormal_double": 0.10, "file_roundtrip": 0.30},
)

PROPS["C09"] = pbt(
    "pbt_c09", "pbt_c09.cpp", modes_variant="o2",
    rule=("integer literals: sign {none,+,-} x base {10, 8 (leading 0), 16 (0x/0X, mixed-case digits)} x magnitude "
          "{every type limit +-2, 2^31..2^33 and 2^63..2^65 neighbourhoods, small numbers, random 1..25-digit strings}, "
          "stored with econf_setStringValue (10% read from a file), through all four integer getters and their Def "
          "variants, expected value computed exactly with __int128; floating literals constructed from a target bit "
          "pattern with a known answer (exact decimal expansion, just above / just below / exactly at the midpoint to "
          "the successor, 17/9-digit renderings; normal and subnormal; float and double); boolean texts (case "
          "variants, djb2 neighbours of the words, random printable strings, specials) and, exhaustively, every string "
          "of length <=3 (quick) / <=4 (thorough) over a 45-character reduced alphabet; keys without value through "
          "every typed getter. non-trivial = literal near a limit / wider than 32 bits / not decimal / not an exact "
          "expansion / text that is no boolean word; distinct = hash of the literal"),
    technique="property-based testing against exact reference arithmetic (__int128, big-decimal construction of float literals) + bounded-exhaustive boolean strings, rapidcheck",
    level_text=("generated literals with exactly known answers, no second strtod as reference; {q} (quick) / {t} "
                "(thorough) literals plus all 93k / 4.2M short strings through the boolean getter (exhaustive for the "
                "stated alphabet and length)."),
    level_note="overflowing float literals carry no claim beyond 'not success with a finite number' and are not generated; literals have nothing after them",
    quick={"cases": 4000000, "modes": [["boolexh", "3", str(k), "4"] for k in range(4)]},
    thorough={"cases": 12000000, "modes": [["boolexh", "4", str(k), "16"] for k in range(16)]},
    floors={"out_of_int32_range|sub_integer": 0.30, "octal|sub_integer": 0.15, "hex|sub_integer": 0.20,
            "negative_for_unsigned|sub_integer": 0.10, "bool_djb2_neighbour|sub_bool": 0.20,
            "subnormal_literal|sub_float": 0.08, "lit_tie|sub_float": 0.08},
)

PROPS["C14"] = pbt(
    "pbt_c14", "pbt_c14.cpp",
    rule=("cells (field kind x length x API path): kinds {key, value, continuation line, section, comment before (one "
          "long line | many lines), comment after, config name, suffix, drop-in name, directory name, total path, "
          "PARSING_DIRS option item}; lengths {1, BUFSIZ-2..BUFSIZ+2, 2*BUFSIZ, 64Ki, 1Mi} for in-file fields, "
          "{1, NAME_MAX-1, NAME_MAX, NAME_MAX+1} for names, PATH_MAX-3..PATH_MAX+2 for the total path; API paths "
          "{read->getters/listings, read->extended getter, read->merge->getters, read->write->read, layered read with "
          "callback path, set->write->read}; position-dependent filler 0001|0002|... so that truncation, duplication "
          "and shifts are visible. --mode grid visits every applicable cell once (both tiers); the rapidcheck part "
          "samples cells with other fillers and lengths BUFSIZ-8..BUFSIZ+8. Oracle: bytes returned = bytes written; "
          "beyond an OS limit a clean error and no content. non-trivial = length >= BUFSIZ-2 or at a name/path limit; "
          "distinct = (kind, length, path)"),
    technique="boundary-value grid enumeration + property-based sampling with position-dependent fillers and byte-equality oracle, rapidcheck",
    level_text=("every cell of the kind x length x API-path grid is visited in both tiers (complete for the grid, "
                "reported under exhaustive_subspaces); {q} (quick) / {t} (thorough) sampled cells with varying fillers "
                "and neighbouring lengths; ASan+UBSan watch the buffers."),
    level_note="names longer than NAME_MAX / paths longer than PATH_MAX cannot be created: for those cells only 'rejected cleanly, no content' is testable",
    quick={"cases": 36000, "modes": [["grid", str(k), "16"] for k in range(16)]},
    thorough={"cases": 80000, "modes": [["grid", str(k), "16"] for k in range(16)]},
    floors={},
)

PROPS["C20"] = pbt(
    "pbt_c20", "pbt_c20.cpp", level="fault_enumeration", extra_sources=["common/cshim.c"],
    env={"ASAN_OPTIONS": "exitcode=99:detect_leaks=1:quarantine_size_mb=16:abort_on_error=0:allocator_may_return_null=1:malloc_context_size=10"},
    fill_differential=True,
    valgrind_sample={"quick": 150, "thorough": 3000},
    rule=("scenarios, each in a forked child: (a) API histories over three objects (constructors incl. option strings "
          "with repeated items, typed setters, getters, extended getter, defaulted getters, merges, writes to existing "
          "and missing directories, refused calls, frees of NULL); (b) layered reads of C01 trees through "
          "readConfig[WithCallback], readDirsWithCallback, readDirsHistoryWithCallback, readFileWithCallback with a "
          "fault injected at a generated consulted index: callback rejection, foreign owner under econf_requireOwner, "
          "malformed line, dangling symlink, file unlinked from inside the callback; (c) option strings with unknown "
          "and repeated items; (d) failing single-file reads. Oracle: out-pointers NULL / untouched sentinel / valid "
          "object; after the documented frees and resetting the global lists __lsan_do_recoverable_leak_check() = 0; "
          "ASan silent; per-case digests identical under malloc_fill_byte 0xAA and 0x55 (uninitialised reads); a "
          "sample under valgrind memcheck. non-trivial = a failing call or a fault at consulted index >= 1; distinct = "
          "hash of (scenario, entry point, fault, index, tree shape / command log)"),
    technique="fault injection over generated scenarios with LeakSanitizer recoverable checks per forked case, heap-fill differential, valgrind sample; rapidcheck",
    level_text=("fault enumeration by generation: every scenario ends with an explicit leak check in its own process, "
                "so a leak on any failure path is attributed to the case that caused it and can be shrunk; {q} "
                "(quick) / {t} (thorough) scenarios, each run under two heap-fill patterns."),
    level_note="allocation-failure paths are not injected; LeakSanitizer reachability semantics (memory reachable from library statics is not a leak)",
    quick={"cases": 32000},
    thorough={"cases": 500000},
    floors={"fault_in_dropin|layered_read": 0.30, "fault_callback_rejection|layered_read": 0.10, "fault_malformed_line|layered_read": 0.10,
            "fault_dangling_symlink|layered_read": 0.06, "fault_vanished_in_callback|layered_read": 0.06,
            "fault_foreign_owner|layered_read": 0.06, "fault_directory_permission|layered_read": 0.03},
)

PROPS["C04"] = pbt(
    "pbt_c04", "pbt_c04.cpp",
    fuzzers=[
        {"name": "fuzz_c04_bytes", "define": "VF_FUZZ_BYTES", "max_len": 4096, "dict": "dict/econf.dict", "corpus": "corpus/c04"},
        {"name": "fuzz_c04_struct", "define": "VF_FUZZ_STRUCT", "max_len": 2048, "dict": None, "corpus": None},
    ],
    rule=("three generators feed one walk(): (i) libFuzzer byte-level target (4 header bytes select delimiter set out of "
          "10, comment set out of 5, option set {none, JOIN, PYTHON, both}, split point into two files; dictionary; "
          "seed corpus = the repository's test data files + saved regressions), (ii) libFuzzer structure-aware target "
          "(the bytes drive the near-grammar decoder: conventional file + line edits), (iii) rapidcheck near-grammar "
          "mutator (conventional file with 0-3 edits: delete/duplicate/swap a line, insert or delete structural "
          "characters, odd lines, truncation, NUL byte, foreign delimiter sets; or raw byte strings). walk(): read "
          "(plain or through an options object), list everything, all 8 typed + 8 defaulted getters + extended getter "
          "on every listed key and two absent ones, read the same bytes again (determinism), write and re-read, parse "
          "a second file, merge both ways, walk and write the results, check the inputs are unchanged; ASan+UBSan+LSan; "
          "every return code within enum econf_err; failed read => no object. evaluations = inputs executed by all "
          "three engines; non-trivial = parsed with >=1 entry or rejected with a parse error; distinct = hash of input "
          "bytes + parameters (rapidcheck part; libFuzzer inputs are counted by its own corpus/feature counters)"),
    technique="coverage-guided fuzzing (libFuzzer, byte-level + structure-aware) and property-based near-grammar mutation (rapidcheck) with invariants inside the target",
    level_text=("fuzzing with semantic invariants inside the target (documented return codes, no object after a failed "
                "read, NULL-terminated lists, determinism, inputs of a merge unchanged) under ASan/UBSan/LSan. Quick: "
                "corpus replay + 2 targets x 4 processes x 25k runs + 48k near-grammar cases; thorough: 2 x 8 x 600k runs "
                "+ 3M near-grammar cases."),
    level_note="libFuzzer campaigns are only approximately reproducible from a seed; the saved artifact is the reproducible unit. Timeouts count only if reproducible at 10x the limit.",
    quick={"cases": 48000, "fuzz_runs": 25000, "fuzz_jobs": 4},
    thorough={"cases": 3000000, "fuzz_runs": 600000, "fuzz_jobs": 8},
    floors={"parsed_with_entries": 0.40, "rejected_with_parse_error": 0.05, "merged_pair": 0.15, "edited": 0.25},
)

PROPS["C19"] = pbt(
    "pbt_c19", "pbt_c19.cpp", econftool=True,
    rule=("two-layer trees under $ECONFTOOL_ROOT (usr/etc, etc; main files, drop-ins, masking, links) whose contents are "
          "group-less only / sections only / both, with multi-line values, optionally one malformed member; command "
          "in {show, syntax, cat} plus show on a single absolute file; --delimiters in {default, '=', ' ', ' \\t', "
          "spaces, a 100-2000 character string with escapes}, --comment in {default, ';'}. The tool runs on a "
          "pseudo-terminal (stdout and stderr in program order); the same tree is read in-process with "
          "econf_readDirs / econf_readFile / econf_readDirsHistory. Oracle: show = the library's (section, key, value "
          "lines) sequence, group-less keys included, nothing extra; exit status != 0 iff the library fails; syntax "
          "names the library's error location and message; cat = (path, content) of every history member in order; no "
          "sanitizer report from the tool. evaluations = tool runs; non-trivial = tree with group-less keys, >=2 files "
          "or a malformed file; distinct = tree shape + options"),
    technique="property-based differential testing: tool output (subprocess on a pty) vs the library on the same generated tree, rapidcheck",
    level_text="differential oracle between econftool and the library on generated trees; {q} (quick) / {t} (thorough) trees, 1-2 tool runs each.",
    level_note="the tool is compiled from /repo/util/econftool.c with ASan/UBSan against the same library objects; keys and values avoid ' = ' so that the output parses unambiguously",
    quick={"cases": 9600},
    thorough={"cases": 200000},
    floors={"groupless_only": 0.12, "groupless_and_sections": 0.15, "malformed_file": 0.08, "cmd_cat": 0.15, "cmd_syntax": 0.2},
)

PROPS["C18"] = pbt(
    "pbt_c18", "pbt_c18.cpp", variant="tsan", racy_replays=8, isolate_shards=6,
    env={"TSAN_OPTIONS": "exitcode=66:halt_on_error=0:suppressions=/verif/tsan.supp:report_signal_unsafe=0:history_size=3"},
    rule=("2-16 thread programs of 20-120 operations each over private objects (3 slots), private generated files "
          "(some malformed) and a private two-layer tree: constructors, typed setters, typed/defaulted/extended "
          "getters, full listings, econf_writeFile, econf_readFile, econf_readConfig with PARSING_DIRS, econf_readDirs, "
          "econf_mergeFiles, frees, in-range econf_errString, path/tag queries, yield points. Each program first runs "
          "alone (digest per operation), then all run concurrently behind a barrier in a ThreadSanitizer build. "
          "Oracle: per-thread digests equal the serial ones; ThreadSanitizer reports nothing (the two last-error-"
          "location globals suppressed by name). Excluded by the property: econf_set_conf_dirs, the security setters, "
          "out-of-range econf_errString. Plus storms (--mode storm T n): T threads x n rounds of write / layered "
          "read / single read / directory read on private trees with a permission requirement in force, every result "
          "(file modes included) compared with the single-threaded one. evaluations = operations; non-trivial = execution intervals of >=2 threads "
          "overlapped and the programs both read and write; distinct = hash of thread count + operation kinds"),
    technique="generated thread programs under ThreadSanitizer (happens-before race detection) + serial-vs-concurrent differential + hot-loop storms; schedules are sampled, not owned; failures confirmed by 2 failing replays out of 8; rapidcheck",
    level_text=("exploration with sampled schedules: ThreadSanitizer flags any two unsynchronised conflicting accesses "
                "that occur in one run regardless of their actual interleaving, which is what matters for a library "
                "without locks; result-changing interleavings without a data race would be found only by luck. {q} "
                "(quick) / {t} (thorough) program sets."),
    level_note="WEAK: the harness does not own the schedule; error location (documented global) is excluded from the digests",
    quick={"cases": 12000, "max_size": 80, "modes": [["storm", "8", "1500"], ["storm", "16", "800"]]},
    thorough={"cases": 200000, "modes": [["storm", "8", "12000"], ["storm", "16", "6000"], ["storm", "3", "20000"]]},
    floors={"intervals_overlapped": 0.50},
)
