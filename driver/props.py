"""Per-property configuration of the checks (budgets are case counts, never time)."""

ENGINE = "common/engine.cpp"


def pbt(binary, src, **kw):
    d = {"binary": binary, "sources": [ENGINE, src], "variant": "asan", "level": "exploration"}
    d.update(kw)
    return d


PROPS = {}
NOT_APPLICABLE = {}
ENGINES = [
    {"name": "rapidcheck-choice-sequences", "path": "src/common/engine.cpp",
     "serves_properties": [],
     "kind_free_text": "rapidcheck generates a sequence of 32-bit choices per case (seeded through RC_PARAMS); each "
                       "property decodes it into a structured input (file AST, tree, call history, fault position), "
                       "runs libeconf (built from /repo with ASan+UBSan) and checks an explicit oracle; failures are "
                       "shrunk on the choice sequence (span deletion, zeroing, bisection) and saved as replay files"},
]
NOTES = ("All checks: ./check <ID> --tier quick|thorough. Budgets are case counts. Evidence is rewritten on every run. "
         "See DESIGN.md.")

PROPS["C02"] = pbt(
    "pbt_c02", "pbt_c02.cpp",
    rule=("files printed from an AST of the conventional grammar (DESIGN 5.1) x 7 delimiter sets x 3 comment sets; "
          "non-trivial = at least one entry and two different adjacent line kinds; distinct = hash of the line-kind "
          "skeleton (kind, indentation, quoting, separator form, trailing comment per line) + delimiter/comment set, "
          "random text excluded"),
    technique="property-based testing: grammar-generated files, construct-then-parse oracle (the AST), rapidcheck",
    level_text=("generated search: files are printed from a random AST of the conventional grammar, so the expected "
                "sections/keys/values are known by construction; 160k (quick) / 5M (thorough) files over all 21 "
                "delimiter x comment configurations, class floors enforced. Shows presence of violations, not absence."),
    level_note="trusts the grammar printer and the model in src/common (not the parser); C locale; tmpfs scratch",
    quick={"cases": 160000},
    thorough={"cases": 5000000},
    floors={"delim_nonblank": 0.10, "delim_blank": 0.10, "delim_mixed": 0.10, "delim_none": 0.05,
            "quoted": 0.15, "trailing_comment": 0.15, "continuation": 0.08, "duplicate_key": 0.10,
            "reopened_section": 0.03, "keyless_section": 0.05, "empty_value": 0.10, "no_final_newline": 0.08,
            "groupless_and_sections": 0.15},
)

PROPS["C05"] = pbt(
    "pbt_c05", "pbt_c05.cpp",
    rule=("F = conventional single-line-value file (DESIGN 5.1 without continuation lines) over all delimiter and "
          "comment sets; 1-6 wild comment lines (blank* c text, text over the full printable alphabet incl. comment "
          "characters, delimiters, quotes, brackets) inserted at arbitrary positions, >=50% directly after an entry; "
          "three reads per case (F, F+insertions, F minus its comment lines), each compared with the AST model; "
          "non-trivial = an inserted line directly follows an entry, or has >=2 comment characters, or contains a "
          "delimiter/quote/bracket; distinct = file skeleton + insertion positions + character-class profile of the "
          "inserted lines"),
    technique="property-based testing: metamorphic relation kv(F) = kv(F + comment lines) = kv(F - comment lines), plus AST oracle",
    level_text=("generated search with a metamorphic oracle: inserting or deleting comment lines must leave sections, "
                "keys and values unchanged; all three variants are additionally compared with the AST the file was "
                "printed from. 100k (quick) / 3M (thorough) file triples."),
    level_note="trusts the grammar printer/model in src/common; comments and line numbers are excluded from the comparison (they legitimately move)",
    quick={"cases": 100000},
    thorough={"cases": 3000000},
    floors={"indented_insert": 0.30, "second_comment_char": 0.30, "insert_after_entry": 0.40,
            "delim_nonblank": 0.10, "delim_blank": 0.10, "delim_mixed": 0.10, "delim_none": 0.05},
)

PROPS["C03"] = pbt(
    "pbt_c03", "pbt_c03.cpp",
    rule=("(i) bounded-exhaustive: every ordered pair of entry lists of length <= L (L=3 quick: 259^2 pairs, L=4 "
          "thorough: 1555^2 pairs) over {group-less,A,B} x {x,y}, realised through the setters (no duplicate) or by "
          "printing+parsing (group-less entries leading); pairs needing both are counted as unrealisable; (ii) the four "
          "kinds of empty object on either side against all lists of length <= 2; (iii) random larger pairs (<=30 "
          "entries, 6 sections, 6 keys, empty and multi-line values). Oracle M1-M7 of DESIGN 6.2. non-trivial = one "
          "side empty or the two share a section; distinct = pair index (exhaustive) / hash of both (section,key) sequences"),
    technique="bounded-exhaustive enumeration + property-based testing against a reference merge specification (M1-M7), rapidcheck",
    level_text=("every pair of small entry lists is enumerated (complete for the stated sub-space, reported under "
                "exhaustive_subspaces), larger pairs are sampled; each result is checked against the declarative merge "
                "specification (visible values, nothing invented, multiplicities, key and section order, inputs "
                "unchanged, result independent of freed inputs)."),
    level_note="trusts the specification M1-M7 as transcription of the property; objects are built only through the public API",
    quick={"cases": 100000, "modes": [["exh", "3", str(k), "8"] for k in range(8)] + [["empties"]]},
    thorough={"cases": 3000000, "modes": [["exh", "4", str(k), "16"] for k in range(16)] + [["empties"]]},
    floors={"base_reopens_section": 0.10, "override_only_groupless": 0.10, "base_nonleading_groupless": 0.08},
)
