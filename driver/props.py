"""Per-property configuration of the checks (budgets are case counts, never time)."""

ENGINE = "common/engine.cpp"


def pbt(binary, src, **kw):
    d = {"binary": binary, "sources": [ENGINE, src], "variant": "asan", "level": "exploration"}
    d.update(kw)
    return d


PROPS = {}
NOT_APPLICABLE = {}
ENGINES = [
    {"name": "rapidcheck-choice-sequences", "path": "src/common/engine.cpp",
     "serves_properties": [],
     "kind_free_text": "rapidcheck generates a sequence of 32-bit choices per case (seeded through RC_PARAMS); each "
                       "property decodes it into a structured input (file AST, tree, call history, fault position), "
                       "runs libeconf (built from /repo with ASan+UBSan) and checks an explicit oracle; failures are "
                       "shrunk on the choice sequence (span deletion, zeroing, bisection) and saved as replay files"},
]
NOTES = ("All checks: ./check <ID> --tier quick|thorough. Budgets are case counts. Evidence is rewritten on every run. "
         "See DESIGN.md.")

PROPS["C02"] = pbt(
    "pbt_c02", "pbt_c02.cpp",
    rule=("files printed from an AST of the conventional grammar (DESIGN 5.1) x 7 delimiter sets x 3 comment sets; "
          "non-trivial = at least one entry and two different adjacent line kinds; distinct = hash of the line-kind "
          "skeleton (kind, indentation, quoting, separator form, trailing comment per line) + delimiter/comment set, "
          "random text excluded"),
    technique="property-based testing: grammar-generated files, construct-then-parse oracle (the AST), rapidcheck",
    level_text=("generated search: files are printed from a random AST of the conventional grammar, so the expected "
                "sections/keys/values are known by construction; 160k (quick) / 5M (thorough) files over all 21 "
                "delimiter x comment configurations, class floors enforced. Shows presence of violations, not absence."),
    level_note="trusts the grammar printer and the model in src/common (not the parser); C locale; tmpfs scratch",
    quick={"cases": 160000},
    thorough={"cases": 5000000},
    floors={"delim_nonblank": 0.10, "delim_blank": 0.10, "delim_mixed": 0.10, "delim_none": 0.05,
            "quoted": 0.15, "trailing_comment": 0.15, "continuation": 0.08, "duplicate_key": 0.10,
            "reopened_section": 0.03, "keyless_section": 0.05, "empty_value": 0.10, "no_final_newline": 0.08,
            "groupless_and_sections": 0.15},
)
