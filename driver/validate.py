#!/usr/bin/env python3-vt
"""validate MANIFEST.json and evidence/*.json against the schemas (tooling venv has jsonschema)"""
import json, glob, sys, jsonschema
ok = True
m = json.load(open('/verif/MANIFEST.json'))
jsonschema.validate(m, json.load(open('/root/.vp/MANIFEST.schema.json')))
print("MANIFEST valid; checks:", len(m['checks']))
es = json.load(open('/root/.vp/EVIDENCE.schema.json'))
for f in sorted(glob.glob('/verif/evidence/*.json')):
    try:
        jsonschema.validate(json.load(open(f)), es)
        print("ok", f)
    except Exception as e:
        ok = False
        print("INVALID", f, str(e)[:300])
sys.exit(0 if ok else 1)
