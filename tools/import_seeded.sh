#!/bin/bash
# tools/import_seeded.sh <worktree-prefix> <ID> <k1> <k2>  - copy what a seeding sub-agent left in <prefix>-<ID>/_seeded/
# (m1.diff, m1_demo.c|m1_demo.sh, m1.md [, m1.flags]; same for m2) to seeded/<ID>-m<k1> and seeded/<ID>-m<k2>.
set -u
pre=$1; id=$2; shift 2
i=0
for n in "$@"; do
  i=$((i+1)); d=/verif/seeded/$id-m$n; s=$pre-$id/_seeded
  [ -d "$d" ] && { echo "exists $d"; continue; }
  [ -f "$s/m$i.diff" ] || { echo "missing $s/m$i.diff"; continue; }
  mkdir -p "$d"; cp "$s/m$i.diff" "$d/patch.diff"
  [ -f "$s/m${i}_demo.c" ] && cp "$s/m${i}_demo.c" "$d/demo.c"
  [ -f "$s/m${i}_demo.sh" ] && cp "$s/m${i}_demo.sh" "$d/demo.sh"
  [ -f "$s/m$i.flags" ] && cp "$s/m$i.flags" "$d/build.flags"
  cp "$s/m$i.md" "$d/notes.md"; echo "imported $d"
done
