#!/bin/bash
# tools/mutant.sh <patch-file> <ID> [<ID>...]  - apply a patch to a scratch copy of /repo (outside /repo and /verif),
# run the quick tier of the given checks against it (VERIF_REPO), print the verdicts, remove the copy.
set -u
patch=$(readlink -f "$1"); shift
d=$(mktemp -d /tmp/vf-mut-XXXXXX)
cp -a /repo/. "$d/" 2>/dev/null
rm -rf "$d/_build"
( cd "$d" && git apply --whitespace=nowarn "$patch" ) || { echo "PATCH DOES NOT APPLY"; rm -rf "$d"; exit 2; }
for id in "$@"; do
  out=$(cd /verif && VERIF_REPO="$d" timeout 1800 ./check "$id" --tier "${TIER:-quick}" 2>&1)
  rc=$?
  v=$(echo "$out" | grep -c "^VIOLATION")
  echo "$id: exit=$rc violations=$v $(echo "$out" | grep "^\[$id" | tail -1)"
  echo "$out" | grep -A3 "^VIOLATION" | grep -v "^--" | cut -c1-300 | head -8
done
# found-* cases produced against the mutant are not regressions of /repo: drop them
cd /verif && git status --porcelain replays | grep '^??' | awk '{print $2}' | xargs -r rm -rf
find /verif/replays -name 'found-*' -newer "$d" -delete 2>/dev/null
rm -rf "$d"
