#!/usr/bin/env python3
"""tools/record_seeded.py <verify-log>... -- <run-log>...
Updates seeded/*/meta.json from the output of tools/verify_seeded.sh and of tools/mutant.sh runs
(lines '== <dir>' followed by '<ID>: exit=.. violations=.. [.. cases=..'). Later logs override earlier ones
per (dir, round); run logs are taken in the order given: the first verdict for a dir is 'first run', any later
one 'after strengthening'."""
import json, os, re, sys
def rnd(d):
    """seeding round of seeded/<ID>-m<k>: two regressions per property and round"""
    return (int(d.split("-m")[1]) + 1) // 2


COMMIT = {1: "5f3ff6d", 2: "5f3ff6d", 3: "39c4358", 4: "8fa01c8", 5: "d7ec9de", 6: "e897c9d"}
ROUND_TEXT = {
    1: "",
    2: "; second round: additionally told the one-line titles of the first-round regressions of the same property and asked for rarer triggers",
    3: "; third round: told the one-line titles of the four earlier regressions of the same property and asked for regressions made of two cooperating changes or depending on state left by earlier calls / on the order of calls",
    4: "; fourth round: told the titles of the six earlier regressions of the same property and asked for regressions on growth/capacity/boundary paths of data structures, in rarely used entry points or argument combinations, or arithmetic slips",
    6: "; sixth round: told the titles of the ten earlier regressions of the same property and asked for what a careful reviewer could still miss (a condition right for every value but one, a branch reachable only through two optional arguments, first versus n-th file, absolute versus relative name, read versus built object, a quantity reused after what it describes has changed)",
    5: "; fifth round: told the titles of the eight earlier regressions of the same property and asked for regressions on error / cleanup paths, in the interplay of two features, or visible only for the second or later element / object / call of a kind",
}

args = sys.argv[1:]
sep = args.index("--")
vlogs, rlogs = args[:sep], args[sep + 1:]
ver = {}
for fn in vlogs:
    for l in open(fn):
        t = l.split()
        if t and re.match(r"C\d\d-m\d+$", t[0]) and "demo_clean=0" in l and "apply=ok" in l and "100% tests passed" in l:
            ver[t[0]] = l.strip()
runs = {}
for fn in rlogs:
    cur = None
    for l in open(fn):
        m = re.match(r"== (?:seeded/)?(C\d\d-m\d+)", l)
        if m:
            cur = m.group(1)
            continue
        if l.startswith("== "):
            cur = None
            continue
        m = re.match(r"(C\d\d): exit=(\d) violations=(\d+) \[.*cases=(\d+)", l)
        if m and cur:
            lst = runs.setdefault(cur, [])
            lst.append({"check": m.group(1), "exit": int(m.group(2)), "violations": int(m.group(3)),
                        "cases_until_verdict": int(m.group(4)), "round": "first run" if not lst else "after strengthening"})
root = os.path.join(os.path.dirname(os.path.dirname(os.path.abspath(__file__))), "seeded")
for d in sorted(os.listdir(root)):
    pid = d.split("-")[0]
    mp = os.path.join(root, d, "meta.json")
    meta = json.load(open(mp)) if os.path.exists(mp) else {}
    demo = "demo.sh" if os.path.exists(os.path.join(root, d, "demo.sh")) else "demo.c"
    meta.update({
        "breaks_property": pid,
        "origin": "independent sub-agent that was given only the property text and a scratch worktree of /repo at commit %s (nothing from /verif)" % COMMIT[rnd(d)]
                  + ROUND_TEXT[rnd(d)],
        "needs_to_manifest": "see notes.md (written by the sub-agent)",
        "demonstration": demo,
        "confirmed_by": "tools/verify_seeded.sh seeded/%s : patch applies to /repo HEAD; repository suite 48/48 with the patch; demonstration exits 0 without and non-zero with the patch" % d,
        "how_run": "tools/mutant.sh seeded/%s/patch.diff %s  (quick tier against a patched scratch copy of /repo via VERIF_REPO; /repo itself untouched)" % (d, pid),
    })
    if d in ver:
        meta["verification_line"] = ver[d]
    if d in runs:
        meta["check_runs"] = runs[d]
    json.dump(meta, open(mp, "w"), indent=1)
print("updated", len(os.listdir(root)), "meta files")
