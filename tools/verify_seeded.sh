#!/bin/bash
# tools/verify_seeded.sh <seeded-dir>  - confirm a seeded regression independently:
#   the patch applies, the repository suite passes with it, the demonstration exits 0 without and !=0 with it.
# Prints one line: <dir> apply=.. suite=.. demo_clean=.. demo_mut=..
set -u
sd=$(cd "$1" && pwd)
w=$(mktemp -d /tmp/vf-seed-XXXXXX)
cp -a /repo/. "$w/" 2>/dev/null; rm -rf "$w/_build" "$w/.git"
cd "$w"
SAN="-fsanitize=address"
export ASAN_OPTIONS=detect_leaks=0   # (only the C20 demonstrations are about leaks)
case "$(basename $sd)" in C20-*) export ASAN_OPTIONS=detect_leaks=1;; esac
case "$(basename $sd)" in C18-*) SAN="-fsanitize=thread -O1";; C04-*) SAN="-fsanitize=address,undefined -fno-sanitize-recover=all";; esac
[ -f "$sd/build.flags" ] && SAN="$(cat "$sd/build.flags")"   # a demonstration that states its own build flags
demo_build() { gcc $SAN -g -D_GNU_SOURCE -w -I include -I lib -o "$1" "$sd/demo.c" lib/*.c -lpthread 2>/dev/null; }
demo_run() {  # $1 = binary name; a shell demonstration builds the tool itself from the current directory
  if [ -f "$sd/demo.sh" ]; then mkdir -p "$w/_seeded"; cp "$sd/demo.sh" "$w/_seeded/demo.sh"; (timeout 300 bash "$w/_seeded/demo.sh" >/dev/null 2>&1); else demo_build "$1" && (cd /tmp && timeout 300 "$1" >/dev/null 2>&1); fi; }
demo_run /tmp/vf-demo-clean-$$; dc=$?
if patch -p1 -s < "$sd/patch.diff" >/dev/null 2>&1; then ap=ok; else ap=FAIL; fi
demo_run /tmp/vf-demo-mut-$$; dm=$?
cmake -G Ninja -DCMAKE_BUILD_TYPE=RelWithDebInfo -DBUILD_TESTING=ON -S . -B _build >/dev/null 2>&1 && cmake --build _build >/dev/null 2>&1 \
 && cmake --build _build --target $(ninja -C _build -t targets all | grep -E '^tst-[A-Za-z0-9_-]+: phony' | cut -d: -f1) >/dev/null 2>&1
st=$(ctest --test-dir _build -j8 2>&1 | grep "tests passed" | sed 's/ *$//')
# under heavy load a test was seen to fail once without cause: a genuine failure fails again when run alone
case "$st" in 100%*) ;; *) if ctest --test-dir _build --rerun-failed >/dev/null 2>&1; then st="100% tests passed, 0 tests failed out of 48 (one test passed only when re-run)"; fi;; esac
echo "$(basename $sd) apply=$ap suite='$st' demo_clean=$dc demo_mut=$dm"
rm -rf "$w" /tmp/vf-demo-clean-$$ /tmp/vf-demo-mut-$$
