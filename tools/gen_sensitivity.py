#!/usr/bin/env python3
"""Regenerates SENSITIVITY.md from seeded/*/meta.json (+ the static lists below)."""
import json, os, re
ROOT = os.path.dirname(os.path.dirname(os.path.abspath(__file__)))
rows = []
for d in sorted(os.listdir(os.path.join(ROOT, "seeded")), key=lambda x: (x.split("-m")[0], int(x.split("-m")[1]))):
    meta = json.load(open(os.path.join(ROOT, "seeded", d, "meta.json")))
    notes = [x.strip() for x in open(os.path.join(ROOT, "seeded", d, "notes.md")).read().splitlines() if x.strip()]
    title = re.sub(r"^[#\s]*", "", notes[0])[:120].replace("|", "/")
    rows.append((d, title, meta))
n = len(rows)
first_caught = sum(1 for d, t, m in rows if [x for x in m.get("check_runs", []) if x["round"].startswith("first run")][:1] and
                   [x for x in m.get("check_runs", []) if x["round"].startswith("first run")][0]["exit"] == 1)
out = ["# Sensitivity of the checks: seeded regressions", "",
       "Two kinds of deliberate breakage were applied to scratch copies of `/repo` (never to `/repo` itself):", "",
       "* **seeded/** - %d regressions written by independent sub-agents: 20 agents in a first round (two regressions per property)," % n,
       "  20 more in a second round (two further regressions per property, asked for rarer triggers and told only the one-line titles of",
       "  the first round's regressions), 20 more in a third round (asked for regressions",
       "  made of two cooperating changes or depending on state left by earlier calls), 20 more in a fourth round (capacity / boundary",
       "  paths of data structures, rarely used entry points and argument combinations, arithmetic slips), 20 more in a fifth round (error and cleanup",
       "  paths, interplay of two features, second element / object / call of a kind), 20 more in a sixth round",
       "  (one agent delivered a single regression). Each agent saw only the text of one property and its own git worktree of `/repo`; nothing from",
       "  `/verif`. Every regression compiles, passes the repository's 48 tests and comes with a demonstration that passes without and",
       "  fails with the change; all three facts were re-confirmed with `tools/verify_seeded.sh` before the regression was kept.",
       "* **own mutants** - quick plausibility mutants from the lists in DESIGN.md section 7 (not kept as files; listed below).", "",
       "`tools/mutant.sh <patch> <ID>` runs the quick tier of a check against a patched scratch copy (`VERIF_REPO`); `tools/record_seeded.py`",
       "folds the logs (`tools/logs/`) into `seeded/*/meta.json`, from which this file is generated (`tools/gen_sensitivity.py`).", "",
       "## Seeded regressions (sub-agents)", "",
       "m1, m2: first round; m3, m4: second round (rarer triggers); m5, m6: third round (cooperating changes, state / order dependence); m7, m8: fourth round (capacity / boundary paths, rarely used entry points, arithmetic slips); m9, m10: fifth round (error / cleanup paths, interplay of two features, second element / object / call); m11, m12: sixth round (what a careful reviewer could still miss).", "",
       "| id | what it breaks (one line) | checks as they were when it arrived | after strengthening | cases until the verdict |",
       "|----|---------------------------|-------------------------------------|---------------------|-------------------------|"]
for d, title, meta in rows:
    r = meta.get("check_runs", [])
    first = [x for x in r if x["round"] == "first run"]
    other = [x for x in r if x["round"].startswith("first run (other")]
    later = [x for x in r if x["round"] == "after strengthening"]
    f = ("caught" if first and first[0]["exit"] == 1 else "MISSED") if first else "-"
    if other and other[0]["exit"] == 1:
        f += " (caught by %s)" % other[0]["check"]
    l = ("caught" if later and later[-1]["exit"] == 1 else ("missed" if later else ""))
    if meta.get("status", "").startswith("obsolete"):
        l = "obsolete (see note)"
    cases = (later[-1:] or other or first or [{"cases_until_verdict": ""}])[0]["cases_until_verdict"]
    out.append("| %s | %s | %s | %s | %s |" % (d, title, f, l, cases))
# the regression sweep over all seeded regressions with the final machinery (tools/logs/final_sweep.txt)
sw = {}
try:
    cur = None
    for l in open(os.path.join(ROOT, "tools", "logs", "final_sweep.txt")):
        m = re.match(r"== (C\d\d-m\d+)", l)
        if m:
            cur = m.group(1)
            continue
        m = re.match(r"C\d\d: exit=(\d+) ", l)
        if m and cur and cur not in sw:
            sw[cur] = int(m.group(1))
except OSError:
    pass
if sw:
    notc = sorted(k for k, v in sw.items() if v != 1)
    out += ["", "**Regression sweep of the final machinery** (`tools/logs/final_sweep.txt`, every seeded regression against the quick tier of its own",
            "property's check, all checks as committed): %d of %d caught; not caught by the own check: %s - exactly the regressions" % (
                sum(1 for v in sw.values() if v == 1), len(sw), ", ".join(notc)),
            "explained below (caught by a neighbouring check, obsolete after a repair, or outside what the property claims).",
            "After the sixth round the sweep was repeated for the eight properties whose checks had changed again (`tools/logs/sweep_after_round6.txt`,",
            "96 regressions, m1-m12 of C02 C06 C08 C09 C12 C14 C15 C16): 90 caught, the other six are among the explained ones.", ""]
out += ["", "%d of the %d were caught by the checks as they were when the regression arrived. Every miss pointed at a shape the generator did" % (first_caught, n),
        "not reach or an observation the oracle did not make; each was closed by widening the generator or the oracle (never by raising",
        "case counts), after which all are caught - with fourteen exceptions that are explained in their `meta.json`:", "",
        "* **C12-m4** (a callback switches off the process-wide file restrictions) is outside what C12 quantifies over; it is caught by C16.",
        "* **C08-m10** (a merge result takes its tags from the override) is a merge matter with a set before and a write after it; C03 catches",
        "  it since it requires the documented tag inheritance.",
        "* **C04-m3** (comment lines recognised by the first comment character only) was caught by C04 through the heap overrun it provoked;",
        "  that overrun turned out to be genuine defect RC22 reached by another route (fix e897c9d). Since the repair the mutation has no",
        "  memory-safety effect; what remains (a comment line continues the previous value) is C05's subject and C05 catches it.",
        "* **C09-m6** is obsolete for the same reason as C16-m4: the scenario written to catch it exposed a genuine defect (fix 8fa01c8), and with",
        "  the repair the mutated line is dead code.",
        "* **C17-m8** (the extended getter no longer drops a trailing blank-only continuation line) is outside the generated domain: a",
        "  blank-only line directly after an entry is excluded from the conventional grammar on purpose (DESIGN 5.1 note (a): the reader takes it as",
        "  a continuation line, which is debatable), so what the extended getter reports for it is not judged.",
        "* **C01-m10** (a dangling main-file link in a higher layer ends the search): what a dangling link means for the lookup is not stated",
        "  by C01 (it names empty files and links to /dev/null); the generator does not produce one and the model has no opinion.",
        "* **C15-m9** (a failed read frees the caller's options object and sets the handle to NULL): allowed by C20's out-pointer rule; that",
        "  a retry through the now-NULL handle reads without the options is a consequence the properties do not rule out.",
        "* **C16-m9** (when a file violates two rules the later rule's code is returned): C16 demands *a* specific code of a violated rule, not a",
        "  precedence between them; the check accepts either.",
        "* **C19-m10** (a blank-only continuation line in the middle of a value ends the tool's listing of it): same excluded shape as C17-m8.",
        "* **C10-m12** (econf_getGroups memoises the number of sections) only shows when a setter runs between two listings: not a read-only",
        "  sequence, hence not C10's; the C11 check catches it.",
        "* **C17-m12** (comment lines in front of a section header are dropped): C17 speaks of the comment lines directly preceding an entry;",
        "  lines in front of a header are tolerated either way (detached block).",
        "* **C19-m12** (`--delimiters=spaces` loses the vertical tab) needs a key/value line whose only separator is a vertical tab; C19's trees",
        "  separate with blanks. Not closed (end of the session).",
        "* **C04-m12** (stripbrackets guard without closing-bracket test) overran the heap through the scan for `]`; fix d72dbcf replaced that scan",
        "  by a bounded copy, since then the mutation has no memory-safety effect (obsolete for C04).",
        "* **C16-m4** (restrictions evaluated on the realpath-resolved name for relative paths) is obsolete: extending C16 to relative",
        "  paths in order to catch it exposed the underlying behaviour as a genuine defect of the library (fix 39c4358); after the repair the",
        "  mutation is behaviour-preserving.", "",
        "| missed | why | change to the machinery |",
        "|--------|-----|-------------------------|",
        "| C05-m2 | needs PYTHON_STYLE; C05 only used the default reader | C05 runs 30% of its triples through econf_readConfig with JOIN_SAME_ENTRIES / PYTHON_STYLE / both |",
        "| C13-m2 | `key text = more` (delimiter later in the line) directly after an entry was not generated | fifth injected kind `missing_delimiter_later`, legal at every position |",
        "| C20-m2 | needs an empty repeated option item (`CONFIG_DIRS=.d:.e;...;CONFIG_DIRS=`) | empty-valued CONFIG_DIRS=/PARSING_DIRS=/ROOT_PREFIX= items in C20 |",
        "| C18-m1 | static realpath buffer only used for relative file names | thread programs use relative names for half of their reads |",
        "| C19-m1 | key-less sections were not compared | the tool's section lines must equal econf_getGroups (show, cat) |",
        "| C19-m2 | needs an escape in --delimiters and a key containing the escape letter | key names contain t, f, n, r, v |",
        "| C05-m4 | empty comment argument (= default `#`) only through the directory readers | C05 passes `\"\"` for `#` in 15% of its cases, on both read paths |",
        "| C06-m4 | callback sees a canonicalised instead of the given relative name | C06 names single files relative to the working directory half of the time |",
        "| C07-m4 | writer drops a value that equals the internal placeholder `_none_` | `_none_` is in the value pool of the histories |",
        "| C09-m3 | int64 getter depends on a stale errno | C08/C09 poison errno (ERANGE, ENOENT, EINVAL, 0) before every getter |",
        "| C10-m3 | merge rewrites a NULL value of its override input | C10's merge partner defines the object's own (section,key) pairs |",
        "| C13-m3 | JOIN_SAME_ENTRIES=1 swallows the parse error | tree parameters carry `JOIN_SAME_ENTRIES=1` in 15% of the layered reads (all tree checks) |",
        "| C13-m4 | error location cut at 255 characters | C13 places 12% of its single files below a long directory chain (paths of 150-600 characters) |",
        "| C14-m3 | a 255-byte drop-in name is not masked by its namesake | C14's name cells put the same long name into a lower layer and require it to be masked |",
        "| C17-m3 | `\"quoted\"` first line + continuation lines treated as one item | the grammar allows continuation lines after a quoted first line (C02, C17, C20) |",
        "| C18-m3 | continuation detection reads the global line record: needs concurrent parsing of multi-line files | every thread has a 300-1000 line file full of multi-line values, 40% of the file reads take it |",
        "| C19-m3 | suffix taken from the first dot: needs a configuration name with a dot | configuration name `vf.ex` in 15% of all trees |",
        "| C19-m4 | `--comment` cut to one character | `--comment '#;'` with `#` and `;` comment lines in the files |",
        "| C20-m3 | JOIN reset line with a trailing comment: double free | new C20 scenario: duplicate-rich files read with the parsing options, queried, merged, written, freed |",
        "| C20-m4 | leak when two different comment characters follow a value | same scenario, trailing comments may contain further comment characters |",
        "| C01-m6 | `econf_set_conf_dirs({NULL})` no longer resets: the failure needs the previous case's list | the failure was found but did not replay alone; the engine now keeps the last 16 cases of the process, replays `found-history.case` (earlier cases + case) in a fresh process and minimises that history (`prelude=` lines) |",
        "| C03-m5 | base file with a key-less `[B]` header hides the override's keys of B | C03's parsed inputs get key-less headers from the section pool |",
        "| C03-m6 | override obtained through econf_readConfig has its values moved out | C03 inputs also come from econf_readConfig and from a previous merge |",
        "| C06-m5 | callback skipped while a (satisfied) permission requirement is in force | C06 runs 25% of its cases with restrictions every file satisfies (permission bits, own uid, own gid) |",
        "| C06-m6 | non-regular directory entries are read unchecked | C06 scenario with a named pipe as drop-in: a forked writer observes whether the library opens it; opening requires a prior accepted callback |",
        "| C07-m5 | writer cuts stored comments in place: only the second write is wrong (C10 caught it) | C07 writes 30% of its objects twice and judges the second file |",
        "| C12-m5 | caller's options object keeps a stale copy of the process-wide list after a failed read | C12 / C01: the options object first goes through a failing read under another list |",
        "| C15-m6 | repeated PARSING_DIRS accumulates | every candidate directory has drop-ins with names and keys of its own; nothing of a non-selected directory may be visible |",
        "| C17-m5 | layered read keeps the main file's path when the later file has no entries | C17 reads its file once more through econf_readDirs with an entry-less / one-key drop-in: path must be empty |",
        "| C17-m6 | directory of a relative name cached across chdir | C17 reads the same relative name from two working directories |",
        "| C05-m6 | lines of 16383+ characters are split by the reader (C14 caught it) | 3% of C05's inserted comment lines are blown up to lengths around 1-4x and 8x BUFSIZ |",
        "| C08-m6 | a refused `econf_setBoolValue` wipes the stored value | C08 (in memory and through files) and C11 follow some sets with a boolean set that must be refused and must not change anything |",
        "| C09-m5 | boolean getter compares only the first five characters (`falsehood` -> false) | boolean texts that contain an accepted spelling as a proper part: word+tail, head+word, word+word, word cut short, last letter repeated |",
        "| C09-m6 | stale pointer gives bare keys of a delimiter-less file a value (C02 caught it) | new C09 scenario: lists of bare keys with numeric-looking names, some followed by comments, through every typed getter. The scenario exposed a genuine defect of the unchanged library (fix 8fa01c8); after the repair the mutation is behaviour-preserving |",
        "| C14-m5 | writer re-uses a buffer sized for an earlier, shorter comment: a later comment of exactly 8192 bytes loses a byte | the neighbours of C14's long entry carry short comments of their own |",
        "| C14-m6 | relative name whose absolute form has PATH_MAX-1 characters is refused | the total-path cells also read the deep file by relative name from its own directory |",
        "| C16-m5 | `econf_followSymlinks(true)` after `econf_requireOwner/Group` switches those checks off | C16 calls the setters in a generated order, with an explicit `followSymlinks(true)` when the rule is off |",
        "| C16-m6 | owner/group compared against the parent directory while a permission rule is active | C16 adds, in 30% of its cases, a permission rule every generated file and directory satisfies |",
        "| C01-m7, C13-m7 | drop-in scan skips the first two directory entries (assumed to be `.` and `..`) | the drop-in name universe has names that sort before `.` and between `.` and `..` (`+p`, `-m`, `.-d`) |",
        "| C05-m7 | comment bytes above 0x7f are compared as signed char | 8% of C05's files use a comment set with the byte 0xA7 |",
        "| C08-m8 | `[x]` with a one-character name is no longer stripped (C11 caught it) | C08 sets through `[T]` and gets through `T` (and the reverse), in memory and through files |",
        "| C11-m7 | lookups see the pre-allocated spare slots: a never-set key named `_none_` exists | `_none_` is in the key pool of the histories |",
        "| C11-m8 | `[]` is no longer the bracketed spelling of the empty section name | `[]` is one of the section spellings of the histories (group-less) |",
        "| C13-m8 | an empty comment argument reaches the parser as \"no comment character\" | C13 passes `\"\"` for `#` in 20% of its single-file cases |",
        "| C14-m7 | `econf_errLocation` loses the last character of a PATH_MAX-1 name | the total-path cells put a malformed file next to the deep one and compare error file and line |",
        "| C14-m8 | buffer of the drop-in postfix list grows by doubling only: short postfix, then a NAME_MAX one | new C14 kind: postfix lists {`.d`, `/`+1..NAME_MAX characters, `/z.d`} through CONFIG_DIRS and econf_set_conf_dirs |",
        "| C15-m7 | last continuation line of a file without final newline loses a character | C15's JOIN / PYTHON files end without newline in 20% of the cases |",
        "| C16-m8 | required ids above INT_MAX switch the rule off | required uid 3000000000 / gid 4000000000 in 15% of the cases |",
        "| C18-m7 | `strtok` in the option list parser: failures were found but never replayed (schedule is not part of the case) | C18 replays a case up to 8 times and reports it when two replays fail (`racy_replays`) |",
        "| C18-m8 | process-wide initial capacity raced by object growth and creation, saturates after the first growth | 6 of C18's 16 shards fork every case from a process that never ran one; half of the cases run the concurrent phase before the serial reference; new operation: 9+ new keys at once |",
        "| C19-m8 | empty `--delimiters` keeps the default | empty delimiter string (`--delimiters=`, `-d ''`) as seventh delimiter choice; exposed genuine defect RC21 (fix d7ec9de) |",
        "| C04-m7 | group list growth forgets the terminator at 8, 16, ... groups (1 pointer, invisible without ASan) | 4% of the grammar's files are \"many sections\" files (>= 8 distinct sections in 0.6% of all files) - C02, C04 and every other user of the grammar |",
        "| C02-m9 | `econf_getStringValue` returns success for a key without value but leaves the out-pointer untouched (stale value of the caller) | `observe()` hands in recognisably stale out-parameters for listings and values; a success that did not write them is an error (all properties that observe an object) |",
        "| C03-m10 | static cache of the last copied section name across merges: the second merge of a process is wrong | C03 merges every pair a second time (and the reverse pair in between) and compares the two results |",
        "| C05-m10 | reading through the result object of an earlier read collapses the comment set to its first character | C05 reloads 20% of its files through the object of the first layered read |",
        "| C06-m9 | zero-size regular files skip the caller's check | half of C06's empty files stay empty (no decoy content) |",
        "| C06-m10 | drop-in path kept in a static buffer: a callback that reads a configuration itself redirects the outer read | in 12% of C06's cases the callback reads a side tree with drop-ins through the library |",
        "| C08-m9 | section names compared by djb2 hash (`ab` == `bA`) | the two colliding names are section names of C08's file round trip and of the histories (C07, C10, C11, C20) |",
        "| C08-m10 | merge result takes its tags from the override (caught by C03 after strengthening) | C03 builds its override with other tags than the base and requires the documented inheritance (libeconf.h) |",
        "| C09-m9, C09-m10 | a definition without value no longer replaces / resets a number (caught on arrival by C03 and C15) | new C09 scenario: number, then a value-less definition of the same key as merge override or under JOIN_SAME_ENTRIES |",
        "| C12-m9 | history size out-parameter not reset without main file | the history entry points are handed a non-zero size variable |",
        "| C14-m10 | comment of a continuation line copied into a buffer sized for the value line (caught on arrival by C02 and C17 under ASan) | new C14 kind: long comment after a continuation line |",
        "| C15-m10 | repeated key in a drop-in that overrides a lower layer takes its last definition (caught on arrival by C03) | 20% of C15's JOIN files are drop-ins above a main file that defines every key |",
        "| C16-m10 | dangling main-file link skipped before the lstat-based rules | C16's offending file is a dangling link in 20% of the cases with an offender |",
        "| C18-m9 | umask changed and restored around fopen while a permission requirement is in force | C18 storm mode: every thread repeats write / layered read / single read / directory read thousands of times and compares each result (modes included) with the single-threaded one |",
        "| C18-m10 | descriptor closed twice when a directory is read as a file | storm mode; sub-directories with drop-in names and directories read as files in the thread programs; the driver now runs mode drivers first and makes a second pass without fail-fast when an early failure is not confirmed |",
        "| C20-m9 | file name copy leaks on the wrong-directory-permission path | C20 fault kind: permission requirement the directories do not satisfy |",
        "| C20-m10 | drop-ins-only mode overwrites the object's CONFIG_DIRS strings without freeing them | C20 gives the options object a CONFIG_DIRS item in drop-ins-only mode and sends it through a failing read first |",
        "| C04-m9 | cleanup after a failed later drop-in frees an uninitialised slot (caught on arrival by C13 and C20) | C04 reads its byte strings also as members of a layered read behind a harmless first drop-in |",
        "| C02-m12 | `econf_getKeys` for an absent section registers that section | C02 asks for the keys of an absent section and requires the listing to be unchanged |",
        "| C06-m11 | the check is skipped when it was registered with a NULL data pointer | C06 registers the callback with a NULL data pointer in ~9% of its cases |",
        "| C06-m12 | a drop-in reached a second time by the same path is not checked again | C06 scenario with the same directory given twice; with an accept-all callback the history must have as many members as there were checks, and refusing the n-th check must fail the call |",
        "| C08-m11 | a new key set through the section name `\"\"` lands in a section named `\"\"` | C08's group-less setters use NULL, `\"\"` and `[]` in turn |",
        "| C09-m12 | decimal literals that underflow to zero are refused | C09 generates literals below half the smallest subnormal (float and double): +0 / -0 expected |",
        "| C12-m11 | a PARSING_DIRS list stops at an empty element | when the vendor directory argument is NULL/empty, C12 compares with the layered read configured as `PARSING_DIRS=:<etc>` |",
        "| C14-m11 | `econf_writeFile` goes through `<name>.tmp`: names of 252-255 bytes fail | C14's name cells also write a file whose name has the cell's length |",
        "| C14-m12 | ROOT_PREFIX of more than PATH_MAX bytes: snprintf return value used as offset | C14's option-item cells add a ROOT_PREFIX item of the cell's length and expect a clean NOFILE |",
        "| C15-m11 | JOIN_SAME_ENTRIES matches keys by prefix | C15's JOIN files have a key whose name starts with another key's name |",
        "| C16-m11 | the file accepted last is not checked again when the rules change without a reset | 30% of C16's cases read the tree first under a requirement every file satisfies, then set the real rules |",
        "| C01-m12 | drop-ins-only mode keeps the object's CONFIG_DIRS list | C01 gives the options object a CONFIG_DIRS item in drop-ins-only mode |",
        "| C03-m11 | empty base: the override is copied verbatim, repeated definitions and all | C03 requires a key to be listed exactly once whenever the base has it at most once |",
        "| C03-m12 | override keys matched by djb2 hash | `Ab` and `BA` (same hash) are in C03's key pool |",
        "| C05-m11 | only blank and tab are skipped in front of the comment character | C05 indents some comment lines with form feed, vertical tab or carriage return |",
        "| C07-m11 | a section name that ends in `]` is written without brackets | `disk[0]` and `[disk[0]]` are section spellings of the histories; the bracketed one exposed genuine defect RC23 (fix d72dbcf) |",
        "| C10-m11 | `econf_writeFile` stores a fallback delimiter in an object that has none | tags are part of C10's object dump; a quarter of its option-string objects keep their empty tags |",
        "| C11-m12 | a key created through the API loses trailing blanks | C11 uses the key name `name ` (trailing blank) now and then |",
        "| C17-m11 | whole-line comments recognised by the first comment character only (C04-m3 again, now without memory error) | the grammar can put further comment characters into the text of comment lines (C17) |", "",
        "Own mutants exposed two more gaps (both closed): a shallow copy of `comment_before_key` in `cpy_file_entry` (C03 now takes a full",
        "extended dump of the merge result after both inputs were freed, parsed inputs carry comments) and `econftool` printing at most two",
        "value lines (C19's multi-line values now have 2-4 lines).", "",
        "## Own mutants (quick tier)", "",
        "| mutant | check | verdict |", "|--------|-------|---------|"]
own = [("main-file scan lowest layer first (readconfig.c)", "C01", "caught after 129 cases"),
       ("`lensuffix <= lenstr` (suffix alone qualifies)", "C01", "caught after 181 cases"),
       ("alphasort -> versionsort", "C01", "caught after 230 cases"),
       ("find_key returns a later match", "C02, C11", "caught (371 / 113 cases)"),
       ("callback removed from read_file_with_callback", "C06", "caught after 22 cases"),
       ("override value not applied to the first key of a group", "C03", "caught (exhaustive part, 842 pairs)"),
       ("shallow copy of comment_before_key in cpy_file_entry", "C03", "missed at first, caught after the M7 dump was added"),
       ("second comment character only recognised in column 0", "C05", "caught after 546 cases"),
       ("writer restores quotes only for values containing a blank", "C07", "caught after 1157 cases"),
       ("DBL_DECIMAL_DIG-1 in the double setter", "C08", "caught (boundary families and random batch)"),
       ("strtoll base 10 instead of 0", "C09", "caught after 118 cases"),
       ("extended getter right-trims the stored value", "C10", "caught after 73 cases"),
       ("last_scanned_line_nr not updated", "C13", "caught after 26 cases"),
       ("JOIN without the reset on an empty definition", "C15", "caught after 304 cases"),
       ("group check skipped when an owner is required", "C16", "caught after 560 cases"),
       ("pending comment dropped when the comment line directly follows an entry", "C17", "caught after 341 cases"),
       ("static scratch buffer in getStringValueNum", "C18", "caught (ThreadSanitizer report + differing digests)"),
       ("econftool prints at most two value lines", "C19", "missed at first, caught after multi-line values got 2-4 lines"),
       ("per-file object not freed when the main file is rejected by the callback", "C20", "caught after 751 scenarios (leak)")]
for m, c, v in own:
    out.append("| %s | %s | %s |" % (m, c, v))
out += ["", "The hunt for seeded regression C16-m4 also found a genuine defect of the library (relative path + symbolic link, fix 39c4358,",
        "see KNOWN_FINDINGS.txt).", "",
        "On the unchanged (repaired) tree every check was run with several seeds on the quick tier, once on the thorough tier and through",
        "`vp check` (fresh sandbox copy): no violation.", ""]
open(os.path.join(ROOT, "SENSITIVITY.md"), "w").write("\n".join(out))
print("SENSITIVITY.md: %d seeded, %d caught on arrival" % (n, first_caught))
