// C10 - queries never change the configuration
#include "common/engine.hpp"
#include "common/fsutil.hpp"
#include "common/gen_hist.hpp"
#include "common/gen_text.hpp"
#include "common/model.hpp"

using namespace vf;
static Scratch g_scr;

static std::string dump_all(econf_file *kf, const char *wname) {
  std::string r = full_dump(kf, true);
  econf_err e = econf_writeFile(kf, g_scr.dir.c_str(), wname);
  r += "write rc=" + std::to_string(e) + "\n";
  if (e == ECONF_SUCCESS) {
    std::string b;
    read_file_bytes(g_scr.dir + "/" + wname, b);
    r += "written='" + esc(b) + "'\n";
  }
  return r;
}

// values that tempt the getters: mixed-case words, numbers, junk
static std::string tempting_value(Src &s) {
  static const std::vector<std::string> v = {"Yes", "TRUE", "No", "False", "yEs Please", "YES", "tRuE", "1", "0", "42", "-17",
                                             "0x1F", "017", "3.25", "1e3", "NaN", "Inf", "12abc", "  ", "", "_none_", "Maybe",
                                             "99999999999999999999", "-0", "+5", "TrUe ", "nO"};
  return v[s.below((uint32_t)v.size())];
}

static econf_file *build_object(Src &s, std::string &desc, std::vector<std::pair<std::string, std::string>> &keys,
                                bool &has_bare) {
  econf_file *kf = nullptr;
  size_t how = s.weighted({50, 35, 15});
  if (how == 0) {
    // parsed file: conventional grammar + bare keys, values replaced by tempting ones now and then
    GOpts o;
    o.allowed_di = {0, 1, 2, 4};
    o.bare = true;
    o.max_lines = 16;
    o.long_fields = false;
    GFile f = gen_file(s, o);
    std::string text = f.text();
    // append a few lines with tempting values (delimiter '=' or blank)
    std::string sep = f.cls == DC_BLANK ? " " : std::string(1, f.D[f.cls == DC_MIXED ? f.D.size() - 1 : 0]);
    if (!f.final_nl) text += "\n";
    int extra = (int)s.below(5);
    for (int i = 0; i < extra; i++) {
      std::string v = tempting_value(s);
      if (f.cls == DC_BLANK && v == "  ") v = "";
      text += "tv" + std::to_string(i) + sep + v + "\n";
    }
    write_file(g_scr.dir + "/obj.conf", text);
    int via = (int)s.weighted({60, 0, 20, 10, 10});
    if (via) g_case.tag("object_from_layered_read");
    econf_err e = read_via(via, g_scr.dir, "obj", f.D, f.C, &kf);
    VF_CHECK(e == ECONF_SUCCESS && kf, "harness", "reading the generated object failed rc=" << e << " file='" << esc(text) << "'");
    desc = "parsed D='" + esc(f.D) + "' C='" + f.C + "' file='" + esc(text) + "'";
    for (auto &l : f.lines) has_bare = has_bare || l.kind == L_BARE;
    for (auto &en : f.entries)
      if (en.raw_value.empty()) has_bare = true;
  } else if (how == 1) {
    econf_err e = s.chance(50) ? econf_newKeyFile(&kf, '=', '#') : econf_newKeyFile_with_options(&kf, "");
    VF_CHECK(e == ECONF_SUCCESS && kf, "harness", "constructor failed");
    // (an object made with an option string has no tags yet; mostly they are set, sometimes it stays like that)
    if (!s.chance(25)) {
      econf_set_delimiter_tag(kf, '=');
      econf_set_comment_tag(kf, '#');
    } else
      g_case.tag("object_possibly_without_tags");
    int n = 1 + (int)s.below(14);
    desc = "setters:";
    for (int i = 0; i < n; i++) {
      const SecArg &sa = SEC_ARGS[s.below(N_SEC_ARGS)];
      const std::string &key = hist_keys()[s.below((uint32_t)hist_keys().size())];
      std::string v = s.chance(60) ? tempting_value(s) : gen_text(s, make_alphabet("#"), 1 + (int)s.below(8));
      econf_setStringValue(kf, sa.arg, key.c_str(), v.c_str());
      desc += " ([" + std::string(sa.norm) + "]" + key + "='" + esc(v) + "')";
    }
  } else {
    econf_file *a = nullptr, *b = nullptr;
    econf_newKeyFile(&a, '=', '#');
    econf_newIniFile(&b);
    int n = (int)s.below(8);
    desc = "merge of:";
    for (int i = 0; i < n; i++) {
      const SecArg &sa = SEC_ARGS[s.below(N_SEC_ARGS)];
      std::string v = tempting_value(s);
      bool ina = s.chance(50);
      econf_setStringValue(ina ? a : b, sa.arg, hist_keys()[s.below(4)].c_str(), v.c_str());
      desc += std::string(ina ? " a" : " b") + "([" + sa.norm + "]='" + esc(v) + "')";
    }
    econf_err e = econf_mergeFiles(&kf, a, b);
    econf_freeFile(a);
    econf_freeFile(b);
    VF_CHECK(e == ECONF_SUCCESS && kf, "harness", "merge failed");
  }
  Observed ob = observe(kf);
  for (auto &sk : ob.keys)
    for (auto &k : sk.second) keys.push_back({sk.first, k});
  return kf;
}

static void run(Src &s) {
  std::string desc;
  std::vector<std::pair<std::string, std::string>> keys;
  bool has_bare = false;
  econf_file *kf = build_object(s, desc, keys, has_bare);
  struct G {
    econf_file *k;
    ~G() { econf_freeFile(k); }
  } guard{kf};
  std::string before = dump_all(kf, "w0.out");
  bool failing_getter = false, bool_on_mixed = false, merged = false;
  int n = 1 + (int)s.below(40);
  std::string log;
  uint64_t h = 11;
  for (int i = 0; i < n; i++) {
    auto sp = s.span();
    // pick a key: existing (70%) or missing
    std::string sec, key;
    if (!keys.empty() && s.chance(72)) {
      auto &k = keys[s.below((uint32_t)keys.size())];
      sec = k.first;
      key = k.second;
    } else {
      sec = SEC_ARGS[s.below(N_SEC_ARGS)].norm;
      key = s.chance(50) ? "no-such-key" : hist_keys()[s.below((uint32_t)hist_keys().size())];
    }
    std::string sarg_s = sec;
    if (!sec.empty() && s.chance(40)) sarg_s = "[" + sec + "]";
    const char *sarg = sec.empty() ? (s.chance(50) ? nullptr : "") : sarg_s.c_str();
    size_t q = s.below(24);
    h = fnv_u64(q, h);
    econf_err e = ECONF_SUCCESS;
    switch (q) {
      case 0: { int32_t v; e = econf_getIntValue(kf, sarg, key.c_str(), &v); log += "getInt "; break; }
      case 1: { int64_t v; e = econf_getInt64Value(kf, sarg, key.c_str(), &v); log += "getInt64 "; break; }
      case 2: { uint32_t v; e = econf_getUIntValue(kf, sarg, key.c_str(), &v); log += "getUInt "; break; }
      case 3: { uint64_t v; e = econf_getUInt64Value(kf, sarg, key.c_str(), &v); log += "getUInt64 "; break; }
      case 4: { float v; e = econf_getFloatValue(kf, sarg, key.c_str(), &v); log += "getFloat "; break; }
      case 5: { double v; e = econf_getDoubleValue(kf, sarg, key.c_str(), &v); log += "getDouble "; break; }
      case 6: { char *v = nullptr; e = econf_getStringValue(kf, sarg, key.c_str(), &v); if (e == ECONF_SUCCESS) free(v); log += "getString "; break; }
      case 7:
      case 8:
      case 9: {
        bool v;
        e = econf_getBoolValue(kf, sarg, key.c_str(), &v);
        log += "getBool(" + key + ") ";
        {
          char *sv = nullptr;
          if (econf_getStringValue(kf, sarg, key.c_str(), &sv) == ECONF_SUCCESS && sv) {
            for (char *p = sv; *p; p++)
              if (*p >= 'A' && *p <= 'Z') bool_on_mixed = true;
            free(sv);
          }
        }
        break;
      }
      case 10: { int32_t v; e = econf_getIntValueDef(kf, sarg, key.c_str(), &v, 7); log += "getIntDef "; break; }
      case 11: { int64_t v; e = econf_getInt64ValueDef(kf, sarg, key.c_str(), &v, 7); log += "getInt64Def "; break; }
      case 12: { uint32_t v; e = econf_getUIntValueDef(kf, sarg, key.c_str(), &v, 7); log += "getUIntDef "; break; }
      case 13: { uint64_t v; e = econf_getUInt64ValueDef(kf, sarg, key.c_str(), &v, 7); log += "getUInt64Def "; break; }
      case 14: { float v; e = econf_getFloatValueDef(kf, sarg, key.c_str(), &v, 1.5f); log += "getFloatDef "; break; }
      case 15: { double v; e = econf_getDoubleValueDef(kf, sarg, key.c_str(), &v, 1.5); log += "getDoubleDef "; break; }
      case 16: { char *v = nullptr; e = econf_getStringValueDef(kf, sarg, key.c_str(), &v, (char *)"dflt"); if (e == ECONF_SUCCESS || e == ECONF_NOKEY) free(v); log += "getStringDef "; break; }
      case 17: { bool v; e = econf_getBoolValueDef(kf, sarg, key.c_str(), &v, true); log += "getBoolDef "; break; }
      case 18: {
        econf_ext_value *ev = nullptr;
        // (the extended getter takes the plain section name)
        e = econf_getExtValue(kf, sec.empty() ? nullptr : sec.c_str(), key.c_str(), &ev);
        if (e == ECONF_SUCCESS) econf_freeExtValue(ev);
        log += "getExt ";
        break;
      }
      case 19: {
        size_t gn; char **g = nullptr;
        e = econf_getGroups(kf, &gn, &g);
        if (e == ECONF_SUCCESS) econf_freeArray(g);
        size_t kn; char **ks = nullptr;
        econf_err e2 = econf_getKeys(kf, sec.empty() ? nullptr : sec.c_str(), &kn, &ks);
        if (e2 == ECONF_SUCCESS) econf_freeArray(ks);
        e = ECONF_SUCCESS;
        log += "listings ";
        break;
      }
      case 20: { char *p = econf_getPath(kf); free(p); (void)econf_comment_tag(kf); (void)econf_delimiter_tag(kf); log += "path+tags "; break; }
      case 21: { e = econf_writeFile(kf, g_scr.dir.c_str(), "q.out"); log += "write "; break; }
      default: {
        // use as an input of a merge, in either role; the partner must stay unchanged too
        econf_file *partner = nullptr;
        econf_newKeyFile(&partner, '=', '#');
        econf_setStringValue(partner, "A", "k1", "Partner");
        econf_setStringValue(partner, nullptr, "k2", "P2");
        // the partner defines some of the object's own (section, key) pairs, so that values really override each other
        for (size_t pk = 0; pk < keys.size() && pk < 12; pk++)
          if (s.chance(60))
            econf_setStringValue(partner, keys[pk].first.empty() ? nullptr : keys[pk].first.c_str(), keys[pk].second.c_str(), s.chance(20) ? "" : "PartnerValue");
        std::string pb = dump_all(partner, "p0.out");
        econf_file *r = nullptr;
        e = q == 22 ? econf_mergeFiles(&r, kf, partner) : econf_mergeFiles(&r, partner, kf);
        if (e == ECONF_SUCCESS && r) {
          // query the result as well (it must not share storage with the inputs)
          bool bv;
          econf_getBoolValue(r, "A", "k1", &bv);
          econf_freeFile(r);
        }
        std::string pa = dump_all(partner, "p0.out");
        econf_freeFile(partner);
        VF_CHECK(pa == pb, "partner-modified", "the merge partner changed\nbefore:\n" << pb << "after:\n" << pa);
        merged = true;
        e = ECONF_SUCCESS;
        log += q == 22 ? "merge(as base) " : "merge(as override) ";
        break;
      }
    }
    if (e != ECONF_SUCCESS) failing_getter = true;
  }
  std::string after = dump_all(kf, "w1.out");
  g_case.desc = desc + " queries: " + log;
  if (failing_getter) g_case.tag("failing_getter");
  if (bool_on_mixed) g_case.tag("bool_getter_on_mixed_case");
  if (merged) g_case.tag("used_in_merge");
  if (has_bare) g_case.tag("key_without_value");
  g_case.nontrivial = failing_getter || bool_on_mixed || merged;
  g_case.shape_hash = fnv(desc.substr(0, 6), h);
  g_case.evals = (uint64_t)n;
  VF_CHECK(before == after, "object-modified", "queries changed the object\nbefore:\n" << before << "after:\n" << after);
}

int main(int argc, char **argv) {
  Harness h;
  h.property_id = "C10";
  h.run = run;
  h.base = 32;
  h.per_size = 16;
  h.setup = [] { g_scr.init(); };
  h.teardown = [] { g_scr.cleanup(); };
  return engine_main(argc, argv, h);
}
