// C14 - no length limit: long keys, values, comments, lines and paths are kept whole
//
// A case = (field kind, length, API path, filler seed). --mode grid <shard> <n>
// visits every cell of the (kind x length x path) grid once; the rapidcheck part
// samples cells with varying fillers and neighbouring lengths.
#include <limits.h>

#include "common/engine.hpp"
#include "common/fsutil.hpp"
#include "common/gen_text.hpp"
#include "common/model.hpp"

using namespace vf;
static Scratch g_scr;

enum Kind { K_KEY = 0, K_VALUE, K_CONT, K_SECTION, K_CB_LONG, K_CB_MANY, K_CA, K_CONFIG_NAME, K_SUFFIX, K_DROPIN_NAME, K_DIR_NAME, K_TOTAL_PATH, K_OPTION_ITEM, K_POSTFIX, K_CA_CONT, K_NKINDS };
static const char *const KN[K_NKINDS] = {"key", "value", "continuation_line", "section", "comment_before_long_line", "comment_before_many_lines",
                                         "comment_after", "config_name", "suffix", "dropin_name", "dir_name", "total_path", "option_item", "dropin_dir_postfix", "comment_after_continuation_line"};
enum Path { P_GETTERS = 0, P_EXT, P_MERGE, P_WRITE_READ, P_LAYERED, P_SET_WRITE_READ, P_NPATHS };
static const char *const PN[P_NPATHS] = {"read_getters_listings", "read_extended_getter", "read_merge_getters", "read_write_read", "layered_read_callback", "set_write_read"};

static std::vector<size_t> lengths_for(int kind) {
  const size_t B = BUFSIZ;
  // (a block of n comment lines is accumulated with one asprintf per line: quadratic. 1 Mi of 5-byte lines takes
  // ~8 minutes - a cost, not a truncation - so that kind stops at 64 Ki)
  if (kind == K_CB_MANY) return {1, B - 2, B - 1, B, B + 1, B + 2, 2 * B, 65536};
  if (kind <= K_CA) return {1, B - 2, B - 1, B, B + 1, B + 2, 2 * B, 65536, 1048576};
  if (kind == K_OPTION_ITEM) return {1, B - 1, B, B + 1, 2 * B, 65536};
  if (kind == K_CA_CONT) return {1, 40, B - 1, B, B + 1, 2 * B, 65536};
  if (kind == K_POSTFIX) return {1, 16, NAME_MAX - 1, NAME_MAX};  // the postfix is "/" + that many characters
  if (kind == K_TOTAL_PATH) return {PATH_MAX - 3, PATH_MAX - 2, PATH_MAX - 1, PATH_MAX, PATH_MAX + 1, PATH_MAX + 2};
  return {1, NAME_MAX - 1, NAME_MAX, NAME_MAX + 1};  // name kinds: length of the whole name component
}
static bool path_applies(int kind, int path) {
  if (kind <= K_CA) {
    if (path == P_SET_WRITE_READ) return kind == K_KEY || kind == K_VALUE || kind == K_CONT || kind == K_SECTION;
    return true;
  }
  if (kind == K_TOTAL_PATH) return path == P_GETTERS;
  if (kind == K_CA_CONT) return path == P_EXT || path == P_MERGE;  // (the writer keeps comments of single-line entries only: C07)
  if (kind == K_POSTFIX) return path == P_GETTERS || path == P_LAYERED;  // list given as CONFIG_DIRS item / process-wide
  return path == P_LAYERED;  // names, directories, option items matter for the layered read
}

// position dependent filler: 0001|0002|... ; `salt` varies the digits
static std::string filler(size_t n, unsigned salt, char sep = '|') {
  std::string s;
  s.reserve(n + 8);
  unsigned i = salt % 9000;
  char b[8];
  while (s.size() < n) {
    snprintf(b, sizeof b, "%04u%c", i++ % 10000, sep);
    s += b;
  }
  s.resize(n);
  if (!s.empty() && (s.back() == sep)) s.back() = 'x';
  if (!s.empty() && s[0] == sep) s[0] = 'x';
  return s;
}

static std::string where_differs(const std::string &got, const std::string &want) {
  if (got == want) return "";
  size_t i = 0;
  while (i < got.size() && i < want.size() && got[i] == want[i]) i++;
  return "lengths " + std::to_string(got.size()) + " vs expected " + std::to_string(want.size()) + ", first difference at byte " + std::to_string(i);
}
#define SAME(what, got, want)                                                       \
  do {                                                                              \
    std::string vf_d_ = where_differs((got), (want));                               \
    VF_CHECK(vf_d_.empty(), "truncated-or-altered", what << ": " << vf_d_);          \
  } while (0)

struct Doc {
  std::string sec = "S", key = "k", val = "v", cont, cb, ca, ca_cont;
  bool has_cont = false;
  std::string text() const {
    std::string t;
    if (!cb.empty()) {
      size_t p = 0;
      for (;;) {
        size_t q = cb.find('\n', p);
        t += "#" + cb.substr(p, q == std::string::npos ? std::string::npos : q - p) + "\n";
        if (q == std::string::npos) break;
        p = q + 1;
      }
    }
    t += "[" + sec + "]\nfirst=1\n";
    // the comment belongs to the entry that follows it: put it directly before
    return t;
  }
};

static std::string build_file(const Doc &d) {
  // the neighbours carry short comments of their own (a writer or getter that re-uses a buffer sized for an
  // earlier, shorter comment shows at the long one)
  std::string t = "[" + d.sec + "]\n#c0\nfirst=1 #c1\n";
  if (!d.cb.empty()) {
    size_t p = 0;
    for (;;) {
      size_t q = d.cb.find('\n', p);
      t += "#" + d.cb.substr(p, q == std::string::npos ? std::string::npos : q - p) + "\n";
      if (q == std::string::npos) break;
      p = q + 1;
    }
  }
  t += d.key + "=" + d.val;
  if (!d.ca.empty()) t += " #" + d.ca;
  t += "\n";
  if (d.has_cont) t += "  " + d.cont + (d.ca_cont.empty() ? std::string() : " #" + d.ca_cont) + "\n";
  t += "last=2\n";
  return t;
}

static void check_object(econf_file *kf, const Doc &d, bool ext, bool comments, const char *stage) {
  // listings
  size_t gn = 0;
  char **g = nullptr;
  econf_err e = econf_getGroups(kf, &gn, &g);
  VF_CHECK(e == ECONF_SUCCESS && gn == 1, "wrong-listing", stage << ": getGroups rc=" << e << " n=" << gn);
  std::string gs = g[0];
  econf_freeArray(g);
  SAME(std::string(stage) + ": section name", gs, d.sec);
  size_t kn = 0;
  char **ks = nullptr;
  e = econf_getKeys(kf, d.sec.c_str(), &kn, &ks);
  VF_CHECK(e == ECONF_SUCCESS && kn == 3, "wrong-listing", stage << ": getKeys rc=" << e << " n=" << kn);
  std::string k1 = ks[1];
  econf_freeArray(ks);
  SAME(std::string(stage) + ": key", k1, d.key);
  char *v = nullptr;
  e = econf_getStringValue(kf, d.sec.c_str(), d.key.c_str(), &v);
  VF_CHECK(e == ECONF_SUCCESS && v, "get-failed", stage << ": getStringValue rc=" << e);
  std::string vs = v;
  free(v);
  std::string want = d.val + (d.has_cont ? "\n  " + d.cont : "");
  if (d.has_cont) {
    // blanks at the edges of continuation lines are not part of the claim: compare trimmed lines
    auto tl = [](const std::string &x) {
      std::string r;
      size_t p = 0;
      for (;;) {
        size_t q = x.find('\n', p);
        r += trim_blanks(x.substr(p, q == std::string::npos ? std::string::npos : q - p)) + "\n";
        if (q == std::string::npos) break;
        p = q + 1;
      }
      return r;
    };
    SAME(std::string(stage) + ": multi-line value (trimmed lines)", tl(vs), tl(want));
  } else
    SAME(std::string(stage) + ": value", vs, want);
  if (ext) {
    econf_ext_value *ev = nullptr;
    e = econf_getExtValue(kf, d.sec.c_str(), d.key.c_str(), &ev);
    VF_CHECK(e == ECONF_SUCCESS && ev, "get-failed", stage << ": getExtValue rc=" << e);
    std::vector<std::string> vals;
    for (char **p = ev->values; p && *p; p++) vals.push_back(*p);
    std::string cb = ev->comment_before_key ? ev->comment_before_key : "", ca = ev->comment_after_value ? ev->comment_after_value : "";
    econf_freeExtValue(ev);
    VF_CHECK(vals.size() == (d.has_cont ? 2u : 1u), "truncated-or-altered", stage << ": extended getter returned " << vals.size() << " value lines");
    SAME(std::string(stage) + ": extended value line 0", vals[0], d.val);
    if (d.has_cont) SAME(std::string(stage) + ": extended value line 1", vals[1], d.cont);
    if (comments) {
      SAME(std::string(stage) + ": comment before", cb, d.cb);
      if (!d.has_cont) SAME(std::string(stage) + ": comment after", ca, d.ca);
      if (!d.ca_cont.empty()) {
        // the comment of the continuation line is part of the entry's trailing comment, whole
        size_t at = ca.find(d.ca_cont);
        VF_CHECK(at != std::string::npos, "truncated-or-altered", stage << ": the trailing comment (" << ca.size() << " bytes) does not contain the " << d.ca_cont.size() << " byte comment of the continuation line: " << where_differs(ca.size() >= d.ca_cont.size() ? ca.substr(ca.size() - d.ca_cont.size()) : ca, d.ca_cont));
      }
    }
  }
}

static bool accept_cb(const char *fn, const void *data) {
  std::vector<std::string> *log = (std::vector<std::string> *)data;
  log->push_back(fn);
  return true;
}

// creates a directory chain below base so that the absolute path of the returned directory has exactly `len` characters
static bool make_dir_of_length(const std::string &base, size_t len, std::string &out) {
  if (len < base.size() + 2) return false;
  int fd = open(base.c_str(), O_RDONLY | O_DIRECTORY);
  if (fd < 0) return false;
  std::string cur = base;
  while (cur.size() < len) {
    size_t rest = len - cur.size() - 1;  // after the slash
    size_t comp = rest > 200 ? 200 : rest;
    if (rest > 200 && rest - 200 < 2) comp = 198;  // never leave a 1-character remainder without room for the slash
    if (comp == 0) break;
    std::string name(comp, 'd');
    if (mkdirat(fd, name.c_str(), 0755) != 0 && errno != EEXIST) {
      close(fd);
      return false;
    }
    int nfd = openat(fd, name.c_str(), O_RDONLY | O_DIRECTORY);
    close(fd);
    if (nfd < 0) return false;
    fd = nfd;
    cur += "/" + name;
  }
  // remember fd for file creation
  out = cur;
  close(fd);
  return cur.size() == len;
}

static void run_cell(int kind, size_t len, int path, unsigned salt) {
  clear_dir(g_scr.dir);
  g_case.desc = std::string(KN[kind]) + " length " + std::to_string(len) + " via " + PN[path] + " filler " + std::to_string(salt % 9000);
  g_case.tag(std::string("kind_") + KN[kind]);
  g_case.tag(std::string("path_") + PN[path]);
  g_case.nontrivial = len >= (size_t)BUFSIZ - 2 || len >= NAME_MAX - 1;
  g_case.shape_hash = fnv_u64((uint64_t)kind * 1000003 + (uint64_t)path * 10007 + len, 3);
  const std::string R = g_scr.dir;

  if (kind <= K_CA || kind == K_CA_CONT) {
    Doc d;
    switch (kind) {
      case K_CA_CONT: d.has_cont = true; d.cont = "c"; d.ca_cont = filler(len, salt); break;
      case K_KEY: d.key = filler(len, salt); break;
      case K_VALUE: d.val = filler(len, salt); break;
      case K_CONT: d.has_cont = true; d.cont = filler(len, salt); break;
      case K_SECTION: d.sec = filler(len, salt); break;
      case K_CB_LONG: d.cb = filler(len, salt); break;
      case K_CB_MANY: {
        // many lines of 10 characters, total length ~len
        std::string f = filler(len, salt, '\n');
        d.cb = f;
        break;
      }
      case K_CA: d.ca = filler(len, salt); break;
    }
    if (path == P_SET_WRITE_READ) {
      econf_file *kf = nullptr;
      econf_err e = econf_newKeyFile(&kf, '=', '#');
      VF_CHECK(e == ECONF_SUCCESS, "harness", "newKeyFile");
      std::string v = d.val + (d.has_cont ? "\n  " + d.cont : "");
      econf_setStringValue(kf, d.sec.c_str(), "first", "1");
      e = econf_setStringValue(kf, d.sec.c_str(), d.key.c_str(), v.c_str());
      econf_setStringValue(kf, d.sec.c_str(), "last", "2");
      if (e != ECONF_SUCCESS) {
        econf_freeFile(kf);
        VF_FAIL("set-failed", "setStringValue rc=" << e);
      }
      struct G { econf_file *k; ~G() { econf_freeFile(k); } } g{kf};
      check_object(kf, d, true, false, "after set");
      e = econf_writeFile(kf, R.c_str(), "w.conf");
      VF_CHECK(e == ECONF_SUCCESS, "write-failed", "rc=" << e);
      econf_file *rd = nullptr;
      e = econf_readFile(&rd, (R + "/w.conf").c_str(), "=", "#");
      VF_CHECK(e == ECONF_SUCCESS && rd, "reread-failed", "rc=" << e);
      struct G2 { econf_file *k; ~G2() { econf_freeFile(k); } } g2{rd};
      check_object(rd, d, true, false, "after set/write/read");
      return;
    }
    std::string text = build_file(d);
    std::string fpath = R + "/f.conf";
    econf_file *kf = nullptr;
    econf_err e;
    std::vector<std::string> cblog;
    if (path == P_LAYERED) {
      mkdir_p(R + "/etc/f.conf.d");
      write_file(R + "/etc/f.conf.d/10-long.conf", text);
      std::string opt = "PARSING_DIRS=" + R + "/etc";
      e = econf_newKeyFile_with_options(&kf, opt.c_str());
      VF_CHECK(e == ECONF_SUCCESS, "harness", "options");
      e = econf_readConfigWithCallback(&kf, nullptr, nullptr, "f", "conf", "=", "#", accept_cb, &cblog);
      if (e != ECONF_SUCCESS && kf) {
        econf_freeFile(kf);
        kf = nullptr;
      }
    } else {
      write_file(fpath, text);
      e = econf_readFile(&kf, fpath.c_str(), "=", "#");
    }
    VF_CHECK(e == ECONF_SUCCESS && kf, "read-failed", "rc=" << e << " (" << econf_errString(e) << ")");
    struct G { econf_file *k; ~G() { econf_freeFile(k); } } g{kf};
    if (path == P_GETTERS || path == P_LAYERED) check_object(kf, d, false, false, "after read");
    if (path == P_EXT) check_object(kf, d, true, true, "after read");
    if (path == P_MERGE) {
      econf_file *o = nullptr, *m = nullptr;
      econf_newKeyFile(&o, '=', '#');
      econf_setStringValue(o, "Other", "x", "1");
      e = econf_mergeFiles(&m, kf, o);
      econf_freeFile(o);
      VF_CHECK(e == ECONF_SUCCESS && m, "merge-failed", "rc=" << e);
      struct G3 { econf_file *k; ~G3() { econf_freeFile(k); } } g3{m};
      // the merge result has one more section; check the long field through the getters
      char *v = nullptr;
      e = econf_getStringValue(m, d.sec.c_str(), d.key.c_str(), &v);
      VF_CHECK(e == ECONF_SUCCESS && v, "get-failed", "after merge: rc=" << e);
      std::string vs = v;
      free(v);
      if (!d.has_cont) SAME("after merge: value", vs, d.val);
      econf_ext_value *ev = nullptr;
      e = econf_getExtValue(m, d.sec.c_str(), d.key.c_str(), &ev);
      VF_CHECK(e == ECONF_SUCCESS && ev, "get-failed", "after merge: getExtValue rc=" << e);
      std::string cb = ev->comment_before_key ? ev->comment_before_key : "", ca = ev->comment_after_value ? ev->comment_after_value : "";
      std::string v0 = ev->values && ev->values[0] ? ev->values[0] : "";
      econf_freeExtValue(ev);
      SAME("after merge: extended value line 0", v0, d.val);
      SAME("after merge: comment before", cb, d.cb);
      if (!d.has_cont) SAME("after merge: comment after", ca, d.ca);
    }
    if (path == P_WRITE_READ) {
      e = econf_writeFile(kf, R.c_str(), "w.conf");
      VF_CHECK(e == ECONF_SUCCESS, "write-failed", "rc=" << e);
      econf_file *rd = nullptr;
      e = econf_readFile(&rd, (R + "/w.conf").c_str(), "=", "#");
      VF_CHECK(e == ECONF_SUCCESS && rd, "reread-failed", "rc=" << e);
      struct G2 { econf_file *k; ~G2() { econf_freeFile(k); } } g2{rd};
      check_object(rd, d, true, true, "after read/write/read");
    }
    return;
  }

  if (kind == K_TOTAL_PATH) {
    // absolute file path of exactly `len` characters
    std::string dir;
    const std::string fname = "f.conf";
    size_t dirlen = len - fname.size() - 1;
    if (!make_dir_of_length(R, dirlen, dir)) {
      g_case.desc += " (directory chain not creatable)";
      g_case.tag("os_refused");
      return;
    }
    // create the file relative to its directory (the absolute path may be too long for the kernel)
    std::string full = dir + "/" + fname;
    bool created = false;
    int deep_fd = -1;
    {
      // walk down with chdir-free openat
      int fd = open(R.c_str(), O_RDONLY | O_DIRECTORY);
      std::string rest = dir.substr(R.size());
      size_t p = 1;
      while (fd >= 0 && p < rest.size()) {
        size_t q = rest.find('/', p);
        std::string comp = rest.substr(p, q == std::string::npos ? std::string::npos : q - p);
        int nfd = openat(fd, comp.c_str(), O_RDONLY | O_DIRECTORY);
        close(fd);
        fd = nfd;
        if (q == std::string::npos) break;
        p = q + 1;
      }
      if (fd >= 0) {
        int f = openat(fd, fname.c_str(), O_WRONLY | O_CREAT | O_TRUNC, 0644);
        if (f >= 0) {
          const char body[] = "marker=deep\n";
          if (write(f, body, sizeof body - 1) == (ssize_t)(sizeof body - 1)) created = true;
          close(f);
        }
        deep_fd = fd;
      }
    }
    struct CloseFd {
      int &fd;
      ~CloseFd() {
        if (fd >= 0) close(fd);
      }
    } close_deep{deep_fd};
    VF_CHECK(created, "harness", "could not create the deep file");
    econf_file *kf = (econf_file *)-1;
    econf_err e = econf_readFile(&kf, full.c_str(), "=", "#");
    bool representable = full.size() < PATH_MAX;
    if (representable) {
      g_case.tag("path_within_limit");
      VF_CHECK(e == ECONF_SUCCESS && kf && kf != (econf_file *)-1, "read-failed", "path of " << full.size() << " characters (< PATH_MAX) rc=" << e);
      char *v = nullptr;
      econf_getStringValue(kf, nullptr, "marker", &v);
      std::string vs = v ? v : "";
      free(v);
      char *p = econf_getPath(kf);
      std::string ps = p ? p : "";
      free(p);
      econf_freeFile(kf);
      VF_CHECK(vs == "deep", "wrong-content", "deep file content wrong");
      SAME("econf_getPath of the deep file", ps, full);
      // the same file named relative to its own directory: the absolute name the library forms is as long
      int back = open(".", O_RDONLY | O_DIRECTORY);
      if (back >= 0 && deep_fd >= 0 && fchdir(deep_fd) == 0) {
        struct Back {
          int fd;
          ~Back() {
            if (fchdir(fd) != 0) perror("fchdir");
            close(fd);
          }
        } goback{back};
        for (const char *rel : {"f.conf", "./f.conf"}) {
          econf_file *k2 = (econf_file *)-1;
          econf_err e2 = econf_readFile(&k2, rel, "=", "#");
          VF_CHECK(e2 == ECONF_SUCCESS && k2 && k2 != (econf_file *)-1, "read-failed",
                   "'" << rel << "' read from a working directory of " << dir.size() << " characters (absolute name " << full.size() << " < PATH_MAX) rc=" << e2);
          char *p2 = econf_getPath(k2);
          std::string ps2 = p2 ? p2 : "";
          free(p2);
          char *v2 = nullptr;
          econf_getStringValue(k2, nullptr, "marker", &v2);
          std::string vs2 = v2 ? v2 : "";
          free(v2);
          econf_freeFile(k2);
          VF_CHECK(vs2 == "deep", "wrong-content", "deep file read by relative name: content wrong");
          SAME("econf_getPath of the deep file read by relative name", ps2, full);
        }
        g_case.tag("deep_relative_name");
        // a parse error in a file with such a name: the error location names the whole path
        {
          int ef = openat(deep_fd, "e.conf", O_WRONLY | O_CREAT | O_TRUNC, 0644);
          const char bad[] = "ok=1\n[broken\n";
          bool wrote = ef >= 0 && write(ef, bad, sizeof bad - 1) == (ssize_t)(sizeof bad - 1);
          if (ef >= 0) close(ef);
          if (wrote) {
            std::string efull = dir + "/e.conf";
            econf_file *k3 = (econf_file *)-1;
            econf_err e3 = econf_readFile(&k3, efull.c_str(), "=", "#");
            if (e3 == ECONF_SUCCESS && k3 && k3 != (econf_file *)-1) econf_freeFile(k3);
            VF_CHECK(e3 == ECONF_MISSING_BRACKET, "wrong-code", "malformed deep file: rc=" << e3);
            char *fn = nullptr;
            uint64_t ln = 0;
            econf_errLocation(&fn, &ln);
            std::string fns = fn ? fn : "";
            free(fn);
            SAME("econf_errLocation file name of the deep file", fns, efull);
            VF_CHECK(ln == 2, "wrong-location", "error line " << ln << " expected 2");
          }
        }
      } else if (back >= 0)
        close(back);
    } else {
      g_case.tag("path_beyond_limit");
      bool handed = kf && kf != (econf_file *)-1;
      if (handed) econf_freeFile(kf);
      VF_CHECK(e != ECONF_SUCCESS, "too-long-path-accepted", "path of " << full.size() << " characters (>= PATH_MAX) was read successfully");
      VF_CHECK(!handed, "partial-result", "object handed back for an over-long path");
    }
    return;
  }

  if (kind == K_OPTION_ITEM && path == P_LAYERED) {
    // a ROOT_PREFIX item of that length: the default directories are derived from it; nothing exists below it, so
    // the read answers "no file" - without writing past a path buffer
    std::string pre = "/" + filler(len, salt, '-');
    econf_file *rk = nullptr;
    econf_err re = econf_newKeyFile_with_options(&rk, ("ROOT_PREFIX=" + pre).c_str());
    VF_CHECK(re == ECONF_SUCCESS && rk, "option-refused", "ROOT_PREFIX item of " << pre.size() << " characters: rc=" << re);
    re = econf_readConfig(&rk, "vfproj", "/usr/lib", "cfg", "conf", "=", "#");
    if (rk) econf_freeFile(rk);
    VF_CHECK(re == ECONF_NOFILE, "wrong-code", "read below a ROOT_PREFIX of " << pre.size() << " characters: rc=" << re << " (" << econf_errString(re) << "), expected ECONF_NOFILE");
  }
  if (kind == K_DROPIN_NAME && len <= NAME_MAX) {
    // writing a file whose name has that length (the name is within the limit: the write has to succeed)
    econf_file *wk = nullptr;
    econf_newKeyFile(&wk, '=', '#');
    econf_setStringValue(wk, "S", "k", "written");
    std::string wname = len <= 5 ? std::string("w.cnf") : filler(len - 4, salt, '-') + ".cnf";
    mkdir_p(R + "/wdir");
    econf_err we = econf_writeFile(wk, (R + "/wdir").c_str(), wname.c_str());
    econf_freeFile(wk);
    VF_CHECK(we == ECONF_SUCCESS, "write-failed", "econf_writeFile with a file name of " << wname.size() << " characters: rc=" << we << " (" << econf_errString(we) << ")");
    econf_file *rb = nullptr;
    econf_err rbe = econf_readFile(&rb, (R + "/wdir/" + wname).c_str(), "=", "#");
    char *wv = nullptr;
    if (rbe == ECONF_SUCCESS) econf_getStringValue(rb, "S", "k", &wv);
    std::string wvs = wv ? wv : "";
    free(wv);
    if (rb) econf_freeFile(rb);
    VF_CHECK(rbe == ECONF_SUCCESS && wvs == "written", "wrong-content", "file written under a name of " << wname.size() << " characters: read back rc=" << rbe << " value '" << wvs << "'");
  }
  if (kind == K_POSTFIX) {
    // a list of drop-in directory postfixes: a short one first, a long one ("/" + len characters: the directory
    // <name>/<long>) after it, a short one again; every one of the three directories holds a drop-in
    const std::string longp = "/" + filler(len, salt, '-');
    const std::string ldir = R + "/etc";
    mkdir_p(ldir + "/cfg.d");
    mkdir_p(ldir + "/cfg" + longp);
    mkdir_p(ldir + "/cfg/z.d");
    bool ok = write_file(ldir + "/cfg.conf", "m=main\n") && write_file(ldir + "/cfg.d/10-a.conf", "a=short\n") &&
              write_file(ldir + "/cfg" + longp + "/20-b.conf", "b=long\n") && write_file(ldir + "/cfg/z.d/30-c.conf", "c=last\n");
    VF_CHECK(ok, "harness", "could not create the postfix directories");
    econf_file *kf = nullptr;
    econf_err e;
    if (path == P_GETTERS) {
      e = econf_newKeyFile_with_options(&kf, ("PARSING_DIRS=" + ldir + ";CONFIG_DIRS=.d:" + longp + ":/z.d").c_str());
      VF_CHECK(e == ECONF_SUCCESS && kf, "option-refused", "CONFIG_DIRS with a postfix of " << longp.size() << " characters: rc=" << e);
      e = econf_readConfig(&kf, nullptr, nullptr, "cfg", "conf", "=", "#");
    } else {
      const char *list[4] = {".d", longp.c_str(), "/z.d", nullptr};
      const char *none[1] = {nullptr};
      econf_set_conf_dirs(list);
#pragma GCC diagnostic push
#pragma GCC diagnostic ignored "-Wdeprecated-declarations"
      e = econf_readDirs(&kf, nullptr, ldir.c_str(), "cfg", "conf", "=", "#");
#pragma GCC diagnostic pop
      econf_set_conf_dirs(none);
    }
    if (e != ECONF_SUCCESS) {
      if (kf) econf_freeFile(kf);
      VF_FAIL("read-failed", "layered read with the postfix list {.d, /<" << len << " characters>, /z.d}: rc=" << e << " (" << econf_errString(e) << ")");
    }
    std::string got;
    for (const char *k : {"m", "a", "b", "c"}) {
      char *v = nullptr;
      econf_getStringValue(kf, nullptr, k, &v);
      got += std::string(k) + "=" + (v ? v : "<none>") + " ";
      free(v);
    }
    econf_freeFile(kf);
    SAME("configuration read through the postfix list", got, std::string("m=main a=short b=long c=last "));
    return;
  }

  // ---- names / directories / option items: layered read with callback
  std::string cname = "cfg", sfx = "conf", dropin = "10-x.conf", layer = "etc";
  std::string base = R;
  bool creatable = true;
  std::string opt_extra;
  switch (kind) {
    case K_CONFIG_NAME:
      // whole main-file name component = len
      if (len <= 5) cname = "c"; else cname = filler(len - 5, salt, '-');
      creatable = len <= NAME_MAX;
      break;
    case K_SUFFIX:
      if (len <= 4) sfx = "s"; else sfx = filler(len - 4, salt, '-');  // "cfg." + suffix
      creatable = len <= NAME_MAX && cname.size() + 1 + sfx.size() + 2 <= NAME_MAX;  // the drop-in directory "<name>.<sfx>.d" must fit too
      break;
    case K_DROPIN_NAME:
      if (len <= 5) dropin = "a.conf"; else dropin = filler(len - 5, salt, '-') + ".conf";
      creatable = len <= NAME_MAX;
      break;
    case K_DIR_NAME:
      layer = filler(len, salt, '-');
      creatable = len <= NAME_MAX;
      break;
    case K_OPTION_ITEM: {
      // PARSING_DIRS made of many non-existing directories, the real one last
      while (opt_extra.size() + 30 < len) opt_extra += "/nonexistent/" + filler(12, (unsigned)opt_extra.size(), '-') + ":";
      break;
    }
  }
  std::string ldir = R + "/" + layer;
  std::string mainf = ldir + "/" + cname + "." + sfx;
  std::string ddir = ldir + "/" + cname + "." + sfx + ".d";
  if (kind == K_SUFFIX) dropin = "10-x." + sfx;
  bool made_main = false, made_dropin = false;
  mkdir_p(ldir);
  made_main = write_file(mainf, "m=main\n");
  mkdir_p(ddir);
  made_dropin = write_file(ddir + "/" + dropin, "d=dropin\n");
  // a lower layer holds a drop-in of the same (long) name: it is masked as a whole, whatever its length
  std::string lower = R + "/lower";
  bool made_lower = false;
  if (kind == K_DROPIN_NAME || kind == K_CONFIG_NAME || kind == K_SUFFIX) {
    std::string lddir = lower + "/" + cname + "." + sfx + ".d";
    mkdir_p(lddir);
    made_lower = made_dropin && write_file(lddir + "/" + dropin, "d=lower\nonly_lower=1\n");
  }
  bool made = made_main || made_dropin;
  (void)creatable;
  std::string opt = "PARSING_DIRS=" + opt_extra + (made_lower ? lower + ":" : std::string()) + ldir;
  econf_file *kf = nullptr;
  econf_err e = econf_newKeyFile_with_options(&kf, opt.c_str());
  VF_CHECK(e == ECONF_SUCCESS && kf, "option-refused", "PARSING_DIRS item of " << opt.size() << " characters: rc=" << e);
  econf_file *mine = kf;
  std::vector<std::string> cblog;
  e = econf_readConfigWithCallback(&kf, nullptr, nullptr, cname.c_str(), sfx.c_str(), "=", "#", accept_cb, &cblog);
  if (!made) {
    g_case.tag("os_refused");
    bool content = false;
    if (kf) {
      Observed ob = observe(kf);
      content = !(ob.groups.empty() && (ob.keys.empty() || ob.keys[0].second.empty()));
      econf_freeFile(kf);
    }
    VF_CHECK(e != ECONF_SUCCESS, "too-long-name-accepted", "a name beyond the OS limit cannot exist, but the read succeeded");
    VF_CHECK(!content, "partial-result", "content handed back for a name that cannot exist");
    (void)mine;
    return;
  }
  if (e != ECONF_SUCCESS) {
    if (kf) econf_freeFile(kf);
    VF_FAIL("read-failed", "layered read rc=" << e << " (" << econf_errString(e) << ")");
  }
  struct G { econf_file *k; ~G() { econf_freeFile(k); } } g{kf};
  char *v1 = nullptr, *v2 = nullptr;
  econf_getStringValue(kf, nullptr, "m", &v1);
  econf_getStringValue(kf, nullptr, "d", &v2);
  std::string s1 = v1 ? v1 : "", s2 = v2 ? v2 : "";
  free(v1);
  free(v2);
  VF_CHECK(s1 == (made_main ? "main" : "") && s2 == (made_dropin ? "dropin" : ""), "wrong-content",
           "main='" << s1 << "' dropin='" << s2 << "' (main file " << (made_main ? "exists" : "could not be created") << ", drop-in "
                    << (made_dropin ? "exists" : "could not be created") << ")");
  if (!(made_main && made_dropin)) g_case.tag("os_refused");
  if (made_lower) {
    char *v3 = nullptr;
    econf_err e3 = econf_getStringValue(kf, nullptr, "only_lower", &v3);
    free(v3);
    VF_CHECK(e3 == ECONF_NOKEY, "masked-file-merged", "a drop-in of " << dropin.size() << " characters is not masked by its namesake in the higher layer (rc=" << e3 << ")");
  }
  VF_CHECK(cblog.size() == (size_t)made_main + (size_t)made_dropin + (size_t)made_lower, "wrong-callback-sequence", "callback called " << cblog.size() << " times");
  size_t ci = 0;
  if (made_main) SAME("callback path of the main file", collapse_slashes(cblog[ci++]), collapse_slashes(mainf));
  if (made_lower) ci++;
  if (made_dropin) SAME("callback path of the drop-in", collapse_slashes(cblog[ci]), collapse_slashes(ddir + "/" + dropin));
}

static void run(Src &s) {
  int kind = (int)s.below(K_NKINDS);
  std::vector<size_t> L = lengths_for(kind);
  size_t len = L[s.below((uint32_t)L.size())];
  // neighbours of the boundary lengths
  if (kind <= K_CA && s.chance(30)) len = (size_t)BUFSIZ - 8 + s.below(17);
  if (kind <= K_CA && s.chance(10)) len = 2 + s.below(300);
  if (kind <= K_CA && len > 65536 && !s.chance(20)) len = 65536;  // the 1 Mi cells mostly in the grid
  std::vector<int> paths;
  for (int p = 0; p < P_NPATHS; p++)
    if (path_applies(kind, p)) paths.push_back(p);
  int path = paths[s.below((uint32_t)paths.size())];
  run_cell(kind, len, path, s.raw());
}

static int mode_grid(int shard, int nshards) {
  int idx = 0;
  uint64_t cells = 0;
  for (int kind = 0; kind < K_NKINDS; kind++)
    for (size_t len : lengths_for(kind))
      for (int path = 0; path < P_NPATHS; path++) {
        if (!path_applies(kind, path)) continue;
        if (idx++ % nshards != shard) continue;
        g_case.clear();
        try {
          run_cell(kind, len, path, 17);
        } catch (const Fail &f) {
          printf("GRID FAIL %s: %s\ncell: %s\n", f.symptom.c_str(), f.detail.c_str(), g_case.desc.c_str());
          write_mode_case("cell " + std::to_string(kind) + " " + std::to_string(len) + " " + std::to_string(path), f.symptom, g_case.desc + "\n" + f.detail);
          stats_commit_case();
          return 10;
        }
        g_case.tag("grid_cell");
        stats_commit_case();
        cells++;
      }
  char b[200];
  snprintf(b, sizeof b, "{\"space\":\"grid field kind x length x API path\",\"shard\":%d,\"of\":%d,\"cells\":%llu}", shard, nshards, (unsigned long long)cells);
  stats_note("exhaustive", b);
  return 0;
}

int main(int argc, char **argv) {
  Harness h;
  h.property_id = "C14";
  h.run = run;
  h.shrink_budget = 300;
  h.base = 8;
  h.per_size = 1;
  h.setup = [] { g_scr.init(); };
  h.teardown = [] { g_scr.cleanup(); };
  h.extra = [](const std::string &mode, int argc, char **argv) -> int {
    if (mode == "grid" && argc >= 2) return mode_grid(atoi(argv[0]), atoi(argv[1]));
    if (mode == "cell" && argc >= 3) {
      g_case.clear();
      try {
        run_cell(atoi(argv[0]), strtoull(argv[1], nullptr, 10), atoi(argv[2]), 17);
      } catch (const Fail &f) {
        printf("CELL FAIL %s: %s\ncell: %s\n", f.symptom.c_str(), f.detail.c_str(), g_case.desc.c_str());
        return 10;
      }
      return 0;
    }
    return -1;
  };
  return engine_main(argc, argv, h);
}
