// C04 - no file content can corrupt memory, crash or hang read, query, merge or write
//
// One walk() shared by three engines:
//  - default build: rapidcheck near-grammar mutator (engine_main)
//  - -DVF_FUZZ_BYTES : libFuzzer byte-level target (header bytes select parameters)
//  - -DVF_FUZZ_STRUCT: libFuzzer target that feeds the bytes as choices to the same
//    near-grammar decoder (structure-aware, coverage guided)
#include <unistd.h>

#include "common/engine.hpp"
#include "common/fsutil.hpp"
#include "common/gen_text.hpp"
#include "common/model.hpp"

using namespace vf;
static Scratch g_scr;

static const char *const DSET[10] = {"=", ":=", " ", " \t", " =", "\t =", "", "\n", "==", "\t"};
// (comment sets may contain blanks too: "any comment set")
static const char *const CSET[7] = {"#", ";", "#;", "", "#;!", " #", "#\t"};

struct WalkParams {
  std::string D, C;
  int opt = 0;  // 0 none, 1 JOIN_SAME_ENTRIES, 2 PYTHON_STYLE, 3 both
};

static uint64_t g_parsed_ok = 0, g_parse_err = 0;

// all getters on one (section,key); returns a digest string
static std::string query_key(econf_file *kf, const char *sec, const char *key) {
  std::string r;
  char b[128];
  { int32_t v = 0; econf_err e = econf_getIntValue(kf, sec, key, &v); snprintf(b, sizeof b, "i%d:%d ", e, e ? 0 : v); r += b; }
  { int64_t v = 0; econf_err e = econf_getInt64Value(kf, sec, key, &v); snprintf(b, sizeof b, "l%d:%lld ", e, e ? 0 : (long long)v); r += b; }
  { uint32_t v = 0; econf_err e = econf_getUIntValue(kf, sec, key, &v); snprintf(b, sizeof b, "u%d:%u ", e, e ? 0 : v); r += b; }
  { uint64_t v = 0; econf_err e = econf_getUInt64Value(kf, sec, key, &v); snprintf(b, sizeof b, "U%d:%llu ", e, e ? 0 : (unsigned long long)v); r += b; }
  { float v = 0; econf_err e = econf_getFloatValue(kf, sec, key, &v); snprintf(b, sizeof b, "f%d:%a ", e, e ? 0.0 : (double)v); r += b; }
  { double v = 0; econf_err e = econf_getDoubleValue(kf, sec, key, &v); snprintf(b, sizeof b, "d%d:%a ", e, e ? 0.0 : v); r += b; }
  { bool v = false; econf_err e = econf_getBoolValue(kf, sec, key, &v); snprintf(b, sizeof b, "b%d:%d ", e, e ? 0 : v); r += b; }
  { char *v = nullptr; econf_err e = econf_getStringValue(kf, sec, key, &v); r += "s" + std::to_string(e) + ":" + (e == ECONF_SUCCESS ? (v ? std::string(v) : "<null>") : "") + " "; if (e == ECONF_SUCCESS) free(v); }
  { int32_t v = 0; econf_err e = econf_getIntValueDef(kf, sec, key, &v, 5); snprintf(b, sizeof b, "I%d:%d ", e, v); r += b; }
  { int64_t v = 0; econf_err e = econf_getInt64ValueDef(kf, sec, key, &v, 5); snprintf(b, sizeof b, "L%d ", e); r += b; }
  { uint32_t v = 0; econf_err e = econf_getUIntValueDef(kf, sec, key, &v, 5); snprintf(b, sizeof b, "V%d ", e); r += b; }
  { uint64_t v = 0; econf_err e = econf_getUInt64ValueDef(kf, sec, key, &v, 5); snprintf(b, sizeof b, "W%d ", e); r += b; }
  { float v = 0; econf_err e = econf_getFloatValueDef(kf, sec, key, &v, 1.0f); snprintf(b, sizeof b, "F%d ", e); r += b; }
  { double v = 0; econf_err e = econf_getDoubleValueDef(kf, sec, key, &v, 1.0); snprintf(b, sizeof b, "D%d ", e); r += b; }
  { bool v = false; econf_err e = econf_getBoolValueDef(kf, sec, key, &v, true); snprintf(b, sizeof b, "B%d ", e); r += b; }
  { char *v = nullptr; econf_err e = econf_getStringValueDef(kf, sec, key, &v, (char *)"dflt"); snprintf(b, sizeof b, "S%d ", e); r += b; if (e == ECONF_SUCCESS || e == ECONF_NOKEY) free(v); }
  {
    econf_ext_value *ev = nullptr;
    econf_err e = econf_getExtValue(kf, sec, key, &ev);
    r += "x" + std::to_string(e) + ":";
    if (e == ECONF_SUCCESS && ev) {
      VF_CHECK(ev->values != nullptr, "values-not-terminated", "extended getter returned values == NULL");
      for (char **p = ev->values; *p; p++) r += std::string(*p) + "|";
      r += "L" + std::to_string(ev->line_number) + (ev->comment_before_key ? ev->comment_before_key : "<n>") + "/" + (ev->comment_after_value ? ev->comment_after_value : "<n>");
      econf_freeExtValue(ev);
    }
  }
  for (char c : r) (void)c;
  return r;
}

static void check_rc(econf_err e, const char *what) {
  VF_CHECK((int)e >= 0 && (int)e <= 24, "undocumented-code", what << " returned " << (int)e << " which is no documented error code");
}

// lists everything and calls every getter on every listed key; returns a dump
static std::string walk_object(econf_file *kf, size_t &nentries) {
  std::string dump;
  size_t gn = 0;
  char **groups = nullptr;
  econf_err e = econf_getGroups(kf, &gn, &groups);
  check_rc(e, "econf_getGroups");
  std::vector<std::string> secs = {""};
  if (e == ECONF_SUCCESS) {
    for (size_t i = 0; i < gn; i++) secs.push_back(groups[i]);
    if (groups) VF_CHECK(groups[gn] == nullptr, "values-not-terminated", "group list not NULL-terminated");
    econf_freeArray(groups);
  }
  for (auto &s : secs) {
    size_t kn = 0;
    char **keys = nullptr;
    e = econf_getKeys(kf, s.empty() ? nullptr : s.c_str(), &kn, &keys);
    check_rc(e, "econf_getKeys");
    dump += "[" + s + "]\n";
    if (e != ECONF_SUCCESS) continue;
    VF_CHECK(keys && keys[kn] == nullptr, "values-not-terminated", "key list not NULL-terminated");
    for (size_t i = 0; i < kn; i++) {
      nentries++;
      dump += std::string(" ") + keys[i] + " -> " + query_key(kf, s.empty() ? nullptr : s.c_str(), keys[i]) + "\n";
      if (!s.empty() && i == 0) {
        std::string br = "[" + s + "]";
        dump += " (br) " + query_key(kf, br.c_str(), keys[i]).substr(0, 40) + "\n";
      }
    }
    econf_freeArray(keys);
  }
  dump += " absent: " + query_key(kf, nullptr, "vf-absent-key") + query_key(kf, "vf-absent-section", "k") + "\n";
  char *p = econf_getPath(kf);
  free(p);
  return dump;
}

static econf_err read_bytes(const std::string &bytes, const WalkParams &wp, const char *fname, econf_file **out) {
  std::string path = g_scr.dir + "/" + fname + ".conf";
  write_file(path, bytes);
  econf_err e;
  if (wp.opt == 0) {
    econf_file *kf = (econf_file *)-1;
    e = econf_readFile(&kf, path.c_str(), wp.D.c_str(), wp.C.c_str());
    check_rc(e, "econf_readFile");
    if (e != ECONF_SUCCESS) {
      VF_CHECK(kf == nullptr, "partial-result", "econf_readFile failed with " << e << " but the out-pointer is not NULL");
      *out = nullptr;
    } else {
      VF_CHECK(kf && kf != (econf_file *)-1, "no-object", "econf_readFile succeeded without object");
      *out = kf;
    }
    return e;
  }
  std::string opt = "PARSING_DIRS=" + g_scr.dir;
  if (wp.opt & 1) opt += ";JOIN_SAME_ENTRIES=1";
  if (wp.opt & 2) opt += ";PYTHON_STYLE=1";
  econf_file *kf = nullptr;
  e = econf_newKeyFile_with_options(&kf, opt.c_str());
  VF_CHECK(e == ECONF_SUCCESS && kf, "harness", "options object");
  econf_file *mine = kf;
  e = econf_readConfig(&kf, nullptr, nullptr, fname, "conf", wp.D.c_str(), wp.C.c_str());
  check_rc(e, "econf_readConfig");
  if (e != ECONF_SUCCESS) {
    // still the caller's own key-less options object, or NULL
    if (kf) {
      VF_CHECK(kf == mine, "partial-result", "econf_readConfig failed with " << e << " but handed back a new object");
      econf_freeFile(kf);
    }
    *out = nullptr;
  } else {
    VF_CHECK(kf != nullptr, "no-object", "econf_readConfig succeeded without object");
    *out = kf;
  }
  return e;
}

static void write_and_reread(econf_file *kf, const WalkParams &wp) {
  // give the object printable tags for the write if it has none
  if (econf_delimiter_tag(kf) == 0) econf_set_delimiter_tag(kf, '=');
  if (econf_comment_tag(kf) == 0) econf_set_comment_tag(kf, '#');
  econf_err e = econf_writeFile(kf, g_scr.dir.c_str(), "fz-out.conf");
  check_rc(e, "econf_writeFile");
  if (e != ECONF_SUCCESS) return;
  econf_file *back = (econf_file *)-1;
  std::string D(1, econf_delimiter_tag(kf)), C(1, econf_comment_tag(kf));
  e = econf_readFile(&back, (g_scr.dir + "/fz-out.conf").c_str(), D.c_str(), C.c_str());
  check_rc(e, "econf_readFile(written file)");
  if (e == ECONF_SUCCESS && back && back != (econf_file *)-1) {
    size_t n = 0;
    walk_object(back, n);
    econf_freeFile(back);
  } else
    VF_CHECK(back == nullptr, "partial-result", "re-reading a written file failed but the out-pointer is not NULL");
  (void)wp;
}

static void walk(const std::string &a, const std::string &b, const WalkParams &wp) {
  // reset of process-wide state at the top of every iteration
  econf_reset_security_settings();
  const char *none[1] = {nullptr};
  econf_set_conf_dirs(none);

  econf_file *fa = nullptr, *fb = nullptr, *fa2 = nullptr;
  struct G {
    econf_file *&k;
    ~G() {
      if (k) econf_freeFile(k);
    }
  } ga{fa}, gb{fb}, ga2{fa2};
  econf_err ea = read_bytes(a, wp, "fza", &fa);
  size_t na = 0;
  std::string da;
  if (ea == ECONF_SUCCESS) {
    da = walk_object(fa, na);
    // determinism: the same bytes read again give the same dump
    econf_err ea2 = read_bytes(a, wp, "fza", &fa2);
    VF_CHECK(ea2 == ECONF_SUCCESS, "nondeterministic", "the same bytes were accepted first and rejected (" << ea2 << ") the second time");
    size_t n2 = 0;
    std::string da2 = walk_object(fa2, n2);
    VF_CHECK(da == da2, "nondeterministic", "reading the same bytes twice gave different results\nfirst:\n" << esc(da.substr(0, 1500)) << "\nsecond:\n" << esc(da2.substr(0, 1500)));
    if (na) g_parsed_ok++;
  } else if (ea != ECONF_NOFILE) {
    g_parse_err++;
    char *fn = nullptr;
    uint64_t ln = 0;
    econf_errLocation(&fn, &ln);
    free(fn);
    (void)econf_errString(ea);
  }
  econf_err eb = read_bytes(b, wp, "fzb", &fb);
  size_t nb = 0;
  if (eb == ECONF_SUCCESS) walk_object(fb, nb);
  g_case.nontrivial = (ea == ECONF_SUCCESS && na > 0) || (ea != ECONF_SUCCESS && ea != ECONF_NOFILE);
  if (ea == ECONF_SUCCESS && na > 0) g_case.tag("parsed_with_entries");
  if (ea != ECONF_SUCCESS && ea != ECONF_NOFILE) g_case.tag("rejected_with_parse_error");
  if (ea == ECONF_SUCCESS) write_and_reread(fa, wp);
  if (ea == ECONF_SUCCESS && eb == ECONF_SUCCESS) {
    g_case.tag("merged_pair");
    for (int dir = 0; dir < 2; dir++) {
      econf_file *m = (econf_file *)-1;
      econf_err em = dir ? econf_mergeFiles(&m, fb, fa) : econf_mergeFiles(&m, fa, fb);
      check_rc(em, "econf_mergeFiles");
      if (em == ECONF_SUCCESS && m && m != (econf_file *)-1) {
        size_t nm = 0;
        walk_object(m, nm);
        write_and_reread(m, wp);
        econf_freeFile(m);
      }
    }
    // the inputs are still intact
    size_t n3 = 0;
    std::string da3 = walk_object(fa, n3);
    VF_CHECK(da3 == da, "input-modified", "an input of a merge changed");
  }
  // the same bytes as members of a layered read: b as main file, a harmless first drop-in, then a, then b
  // (a file that is refused after others have been accepted takes the cleanup path of the directory readers)
  if ((a.size() + 3 * b.size()) % 3 == 0) {
    g_case.tag("layered_members");
    const std::string L = g_scr.dir + "/lay";
    mkdir_p(L + "/usr");
    mkdir_p(L + "/etc/fz.conf.d");
    write_file(L + "/usr/fz.conf", b);
    write_file(L + "/etc/fz.conf.d/10-ok.conf", "ok\n");
    write_file(L + "/etc/fz.conf.d/20-a.conf", a);
    write_file(L + "/etc/fz.conf.d/30-b.conf", b);
#pragma GCC diagnostic push
#pragma GCC diagnostic ignored "-Wdeprecated-declarations"
    econf_file *lk = (econf_file *)-1;
    econf_err el = econf_readDirs(&lk, (L + "/usr").c_str(), (L + "/etc").c_str(), "fz", "conf", wp.D.c_str(), wp.C.c_str());
    check_rc(el, "econf_readDirs");
    if (el == ECONF_SUCCESS && lk && lk != (econf_file *)-1) {
      size_t nl = 0;
      walk_object(lk, nl);
    }
    if (lk && lk != (econf_file *)-1) econf_freeFile(lk);
    econf_file **hist = (econf_file **)-1;
    size_t hn = 3;
    econf_err eh = econf_readDirsHistory(&hist, &hn, (L + "/usr").c_str(), (L + "/etc").c_str(), "fz", "conf", wp.D.c_str(), wp.C.c_str());
#pragma GCC diagnostic pop
    check_rc(eh, "econf_readDirsHistory");
    VF_CHECK(eh == el, "entry-points-disagree", "econf_readDirs rc=" << el << " but econf_readDirsHistory rc=" << eh << " on the same tree");
    if (eh == ECONF_SUCCESS && hist && hist != (econf_file **)-1) {
      for (size_t i = 0; i < hn; i++) {
        size_t nh = 0;
        if (hist[i]) walk_object(hist[i], nh);
        econf_freeFile(hist[i]);
      }
      free(hist);
    }
  }
}

// ------------------------------------------------------------------ near-grammar decoder (choices)
static void run(Src &s) {
  WalkParams wp;
  std::string a, b;
  size_t mode = s.weighted({70, 15, 15});
  GOpts o;
  o.bare = true;
  o.max_lines = 14;
  if (mode == 2) {
    // raw bytes from the choices
    wp.D = DSET[s.below(10)];
    wp.C = CSET[s.below(7)];
    int n = (int)s.below(120);
    static const char pool[] = "=:#;[]\" \t\n\\k1vx0-";
    for (int i = 0; i < n; i++) {
      size_t w = s.weighted({60, 25, 15});
      a += w == 0 ? pool[s.below(sizeof pool - 1)] : w == 1 ? (char)(32 + s.below(95)) : (char)s.below(256);
    }
    g_case.tag("raw_bytes");
  } else {
    GFile f = gen_file(s, o);
    wp.D = f.D;
    wp.C = f.C;
    std::vector<std::string> lines;
    for (auto &l : f.lines) lines.push_back(l.text);
    int nedit = mode == 0 ? (int)s.below(4) : 0;
    for (int i = 0; i < nedit; i++) {
      auto sp = s.span();
      size_t ed = s.below(8);
      size_t n = lines.size();
      switch (ed) {
        case 0: if (n) lines.erase(lines.begin() + (long)s.below((uint32_t)n)); break;
        case 1: if (n) { size_t k = s.below((uint32_t)n); lines.insert(lines.begin() + (long)k, lines[k]); } break;
        case 2: if (n >= 2) std::swap(lines[s.below((uint32_t)n)], lines[s.below((uint32_t)n)]); break;
        case 3: if (n) { std::string &l = lines[s.below((uint32_t)n)]; static const char st[] = "=:#;[]\" \t\"\\"; l.insert(s.below((uint32_t)l.size() + 1), 1, st[s.below(sizeof st - 1)]); } break;
        case 4: if (n) { std::string &l = lines[s.below((uint32_t)n)]; if (!l.empty()) l.erase(s.below((uint32_t)l.size()), 1 + s.below(3)); } break;
        case 5: { static const char *odd[8] = {"[", "[]", "  ", "=", "\"", "k", " #", "[x] y"}; lines.insert(lines.begin() + (long)s.below((uint32_t)n + 1), odd[s.below(8)]); break; }
        case 6: if (n) { std::string &l = lines[s.below((uint32_t)n)]; l += std::string(1 + s.below(3), s.chance(50) ? ' ' : '\t'); } break;
        default: if (n) { std::string &l = lines[s.below((uint32_t)n)]; l.insert(0, std::string(1 + s.below(2), ' ')); } break;
      }
      g_case.tag("edited");
    }
    for (size_t i = 0; i < lines.size(); i++) a += lines[i] + (i + 1 < lines.size() || f.final_nl ? "\n" : "");
    if (s.chance(10) && !a.empty()) a.resize(s.below((uint32_t)a.size()));  // truncate at a byte
    if (s.chance(5)) a += std::string(1, '\0') + "tail";
    if (s.chance(15)) {
      // read with another delimiter/comment set than the one the file was written for
      wp.D = DSET[s.below(10)];
      wp.C = CSET[s.below(7)];
      g_case.tag("foreign_delimiters");
    }
  }
  wp.opt = (int)s.weighted({55, 18, 18, 9});
  if (s.chance(40)) {
    GOpts o2 = o;
    o2.max_lines = 8;
    GFile f2 = gen_file(s, o2);
    b = f2.text();
  }
  g_case.desc = "D='" + esc(wp.D) + "' C='" + esc(wp.C) + "' opt=" + std::to_string(wp.opt) + " file='" + esc(a) + "' second='" + esc(b) + "'";
  g_case.shape_hash = fnv(a, fnv(wp.D + "\x01" + wp.C, (uint64_t)wp.opt));
  g_case.tag(std::string("opt_") + std::to_string(wp.opt));
  walk(a, b, wp);
}

#if defined(VF_FUZZ_BYTES) || defined(VF_FUZZ_STRUCT)
// ------------------------------------------------------------------ libFuzzer entry points
static void fuzz_init() {
  static bool done = false;
  if (done) return;
  done = true;
  g_scr.init();
  atexit([] {
    const char *d = getenv("VF_STATS_DIR");
    if (d) {
      FILE *f = fopen((std::string(d) + "/fuzzstats.txt").c_str(), "w");
      if (f) {
        fprintf(f, "parsed_with_entries=%llu\nrejected_with_parse_error=%llu\n", (unsigned long long)g_parsed_ok, (unsigned long long)g_parse_err);
        fclose(f);
      }
    }
    g_scr.cleanup();
  });
}
static void fuzz_fail(const Fail &f, const std::string &desc) {
  fprintf(stderr, "C04 ORACLE FAILURE symptom=%s\n%s\ncase: %s\n", f.symptom.c_str(), f.detail.c_str(), desc.c_str());
  fflush(nullptr);
  __builtin_trap();
}
extern "C" int LLVMFuzzerTestOneInput(const uint8_t *data, size_t size) {
  fuzz_init();
  g_case.clear();
#ifdef VF_FUZZ_BYTES
  if (size < 4) return 0;
  WalkParams wp;
  wp.D = DSET[data[0] % 10];
  wp.C = CSET[data[1] % 7];
  wp.opt = data[2] % 4;
  std::string all((const char *)data + 4, size - 4);
  size_t split = all.size() ? (size_t)data[3] * all.size() / 255 : 0;
  if (data[3] >= 200) split = all.size();  // mostly a single file
  std::string a = all.substr(0, split), b = all.substr(split);
  try {
    walk(a, b, wp);
  } catch (const Fail &f) {
    fuzz_fail(f, "D='" + esc(wp.D) + "' C='" + esc(wp.C) + "' opt=" + std::to_string(wp.opt) + " file='" + esc(a) + "' second='" + esc(b) + "'");
  }
#else
  std::vector<uint32_t> ch;
  // two bytes per choice: structural decisions use small moduli
  for (size_t i = 0; i + 1 < size; i += 2) ch.push_back((uint32_t)data[i] | ((uint32_t)data[i + 1] << 8));
  Src s(ch);
  try {
    run(s);
  } catch (const Fail &f) {
    fuzz_fail(f, g_case.desc);
  }
#endif
  return 0;
}
#else
int main(int argc, char **argv) {
  Harness h;
  h.property_id = "C04";
  h.run = run;
  h.base = 32;
  h.per_size = 14;
  h.setup = [] { g_scr.init(); };
  h.teardown = [] { g_scr.cleanup(); };
  return engine_main(argc, argv, h);
}
#endif
