// C13 - parse failures name the right error, file and line and return nothing partial
#include "common/engine.hpp"
#include "common/fsutil.hpp"
#include "common/gen_text.hpp"
#include "common/gen_tree.hpp"
#include "common/model.hpp"

using namespace vf;
static Scratch g_scr;

static const char *const MSG[25] = {
    "Success",
    "Unknown error",
    "Out of memory",
    "Configuration file not found",
    "Group not found",
    "Key not found",
    "Key is NULL or has empty value",
    "Error creating or writing to a file",
    "Parse error",
    "Missing bracket",
    "Missing delimiter",
    "Empty section name",
    "Text after section",
    "Conf file list is NULL",
    "Wrong boolean value (1/0 true/false yes/no)",
    "Given key has NULL value",
    "File has wrong owner",
    "File has wrong group",
    "File has wrong file permissions",
    "File has wrong dir permissions",
    "File is a sym link which is not permitted",
    "User defined parsing callback has failed",
    "Given argument is NULL",
    "Given option not found",
    "Value cannot be converted",
};

enum Kind { K_BRACKET = 0, K_TEXT_AFTER, K_EMPTY_NAME, K_NO_DELIM, K_NO_DELIM_LATER };
static const econf_err KIND_CODE[5] = {ECONF_MISSING_BRACKET, ECONF_TEXT_AFTER_SECTION, ECONF_EMPTY_SECTION_NAME,
                                       ECONF_MISSING_DELIMITER, ECONF_MISSING_DELIMITER};
// missing_delimiter: "key text" (a continuation when it directly follows an entry, so not placed there);
// missing_delimiter_later: "key text = more" - a delimiter occurs, but not behind the key: malformed at any position
static const char *const KIND_NAME[5] = {"missing_bracket", "text_after_section", "empty_section_name",
                                         "missing_delimiter", "missing_delimiter_later"};

struct Injected {
  std::string text;  // whole file
  int kind;
  int line;  // 1-based line of the injected malformed line
  bool after_comment_block = false, after_cont = false, not_first = false, after_entry = false;
};

// malformed line of the given kind (w.r.t. the file's D and C)
static std::string malformed(Src &s, const GFile &f, int kind) {
  Alphabet a_name = make_alphabet(f.C + "[]\"");
  Alphabet a_key = make_alphabet(f.D + f.C + "\"");
  Alphabet a_txt = make_alphabet(f.D + f.C + "]");
  std::string ind = s.chance(20) ? gen_blanks(s, 1, 2) : "";
  switch (kind) {
    case K_BRACKET: {
      std::string n = gen_text(s, a_name, gen_len(s, 0, false));
      return ind + "[" + n + (s.chance(15) ? gen_blanks(s, 1, 2) : "");
    }
    case K_TEXT_AFTER: {
      std::string n = gen_text(s, a_name, gen_len(s, 0, false));
      std::string t = gen_text(s, a_txt, gen_len(s, 1, false));
      return ind + "[" + n + "]" + gen_blanks(s, 0, 2) + t + (s.chance(15) ? gen_blanks(s, 1, 2) : "");
    }
    case K_EMPTY_NAME:
      return ind + "[]" + (s.chance(30) ? gen_blanks(s, 1, 3) : "");
    case K_NO_DELIM_LATER: {
      std::string k = gen_token(s, a_key, gen_len(s, 1, false), "[");
      std::string t = gen_token(s, a_txt, gen_len(s, 1, false));
      std::string t2 = gen_text(s, a_txt, gen_len(s, 0, false));
      return ind + k + gen_blanks(s, 1, 3) + t + gen_blanks(s, 0, 2) + f.D[s.below((uint32_t)f.D.size())] + gen_blanks(s, 0, 2) + t2;
    }
    default: {
      std::string k = gen_token(s, a_key, gen_len(s, 1, false), "[");
      std::string t = gen_text(s, a_txt, gen_len(s, 1, false));
      return ind + k + gen_blanks(s, 1, 3) + t;
    }
  }
}

static Injected inject(Src &s, const GFile &f) {
  Injected r;
  bool nb = f.cls == DC_NONBLANK;
  r.kind = (int)s.below(nb ? 5 : 3);
  // admissible positions (index of the line before which we insert)
  std::vector<size_t> pos;
  for (size_t p = 0; p <= f.lines.size(); p++) {
    if (r.kind == K_NO_DELIM && p > 0) {
      LineKind k = f.lines[p - 1].kind;
      if (k == L_ENTRY || k == L_CONT || k == L_BARE) continue;  // there it is a continuation by definition
    }
    pos.push_back(p);
  }
  size_t p = pos[s.below((uint32_t)pos.size())];
  // prefer late positions sometimes
  if (s.chance(40)) p = pos[pos.size() - 1 - s.below((uint32_t)std::min<size_t>(pos.size(), 3))];
  std::string bad = malformed(s, f, r.kind);
  std::vector<std::string> lines;
  for (size_t i = 0; i < p; i++) lines.push_back(f.lines[i].text);
  lines.push_back(bad);
  r.line = (int)p + 1;
  // the rest: arbitrary, possibly malformed too ("first such line")
  for (size_t i = p; i < f.lines.size(); i++) {
    if (s.chance(15)) lines.push_back(malformed(s, f, (int)s.below(nb ? 5 : 3)));
    lines.push_back(f.lines[i].text);
  }
  bool final_nl = !s.chance(15);
  for (size_t i = 0; i < lines.size(); i++) {
    r.text += lines[i];
    if (i + 1 < lines.size() || final_nl) r.text += "\n";
  }
  r.not_first = p > 0;
  if (p > 0) {
    r.after_entry = f.lines[p - 1].kind == L_ENTRY || f.lines[p - 1].kind == L_CONT;
    r.after_cont = f.lines[p - 1].kind == L_CONT;
    r.after_comment_block = f.lines[p - 1].kind == L_COMMENT;
  }
  return r;
}

static void check_location(const std::string &path, int line, const char *what) {
  char *fn = nullptr;
  uint64_t ln = 0;
  econf_errLocation(&fn, &ln);
  std::string got = fn ? fn : "<NULL>";
  free(fn);
  VF_CHECK(collapse_slashes(got) == collapse_slashes(path) && ln == (uint64_t)line, "wrong-location",
           what << ": econf_errLocation = (" << got << ", " << ln << ") expected (" << path << ", " << line << ")");
}

static void check_messages(Src &s) {
  for (int c = 0; c < 25; c++) {
    const char *m = econf_errString((econf_err)c);
    VF_CHECK(m && strcmp(m, MSG[c]) == 0, "wrong-message", "econf_errString(" << c << ") = '" << (m ? m : "<NULL>")
                                                                                << "' expected '" << MSG[c] << "'");
  }
  int c = 25 + (int)s.below(100000);
  const char *m = econf_errString((econf_err)c);
  VF_CHECK(m && strstr(m, std::to_string(c).c_str()), "wrong-message",
           "econf_errString(" << c << ") = '" << (m ? m : "<NULL>") << "' does not name the code");
}

static bool accept_all(const char *, const void *) { return true; }

static void run(Src &s) {
  cleanup_tree(g_scr.dir);  // nothing may leak from a previous (failed) case
  GOpts o;
  o.max_lines = 16;
  o.long_fields = false;
  size_t mode = s.weighted({45, 45, 6, 4});
  if (mode == 3) {
    check_messages(s);
    g_case.tag("messages");
    g_case.desc = "message table";
    return;
  }
  if (mode == 2) {
    // missing file
    std::string path = g_scr.dir + "/does-not-exist-" + std::to_string(s.below(1000)) + ".conf";
    econf_file *kf = (econf_file *)-1;
    econf_err e = econf_readFile(&kf, path.c_str(), "=", "#");
    VF_CHECK(e == ECONF_NOFILE, "wrong-code", "missing file: rc=" << e << " expected ECONF_NOFILE");
    VF_CHECK(kf == nullptr, "partial-result", "missing file: out-pointer not NULL");
    g_case.tag("missing_file");
    g_case.desc = "missing file " + path;
    return;
  }
  if (mode == 0) {
    // ---------------------------------------------------- single file
    GFile f = gen_file(s, o);
    Injected in = inject(s, f);
    std::string path = g_scr.dir + "/f.conf";
    if (s.chance(12)) {
      // a long (but ordinary) absolute path: the error location must carry it in full
      std::string dir = g_scr.dir;
      int comps = 5 + (int)s.below(6);
      for (int c = 0; c < comps; c++) dir += "/" + std::string(20 + s.below(30), (char)('a' + c));
      mkdir_p(dir);
      path = dir + "/f.conf";
      g_case.tag(path.size() >= 256 ? "path_256_or_longer" : "path_long");
    }
    write_file(path, in.text);
    g_case.desc = std::string("single D='") + esc(f.D) + "' C='" + f.C + "' kind=" + KIND_NAME[in.kind] +
                  " line=" + std::to_string(in.line) + " file='" + esc(in.text) + "'";
    g_case.tag(std::string("kind_") + KIND_NAME[in.kind]);
    g_case.tag("single_file");
    if (in.not_first) g_case.tag("not_first_line");
    if (in.after_comment_block) g_case.tag("after_comment");
    if (in.after_cont) g_case.tag("after_continuation");
    if (in.after_entry) g_case.tag("directly_after_entry");
    g_case.nontrivial = in.not_first;
    g_case.shape_hash = fnv_u64((uint64_t)in.kind * 1000 + (uint64_t)in.line, f.skeleton());
    econf_file *kf = (econf_file *)-1;
    econf_err e;
    // an empty comment argument means the default '#': code, file and line must be the same
    std::string carg = f.C;
    if (f.C == "#" && s.chance(20)) {
      carg = "";
      g_case.tag("empty_comment_argument");
    }
    if (s.chance(30))
      e = econf_readFileWithCallback(&kf, path.c_str(), f.D.c_str(), carg.c_str(), accept_all, nullptr);
    else
      e = econf_readFile(&kf, path.c_str(), f.D.c_str(), carg.c_str());
    if (e == ECONF_SUCCESS && kf && kf != (econf_file *)-1) econf_freeFile(kf);
    VF_CHECK(e == KIND_CODE[in.kind], "wrong-code",
             "rc=" << e << " (" << econf_errString(e) << ") expected " << KIND_CODE[in.kind] << " ("
                   << econf_errString(KIND_CODE[in.kind]) << ")");
    VF_CHECK(kf == nullptr, "partial-result", "out-pointer is not NULL after a parse error");
    check_location(path, in.line, "single file");
    return;
  }
  // ---------------------------------------------------- member of a tree
  TreeOpts to;
  to.max_consulted = 6;
  to.no_unsafe_merge = false;
  Params pa = gen_params(s, to);
  Tree t = gen_tree(s, pa, to);
  std::vector<Consulted> cons = consulted_files(t, pa);
  if (cons.empty()) {
    g_case.desc = "tree without consulted files";
    return;
  }
  // choose the victim among the consulted files that have content of their own
  std::vector<size_t> cand;
  for (size_t i = 0; i < cons.size(); i++)
    if (cons[i].file && cons[i].file->kind == F_REGULAR) cand.push_back(i);
  if (cand.empty()) {
    g_case.desc = "tree without regular consulted files";
    return;
  }
  size_t vi = cand[s.below((uint32_t)cand.size())];
  // build the malformed content from a fresh conventional file with the tree's D/C
  GOpts fo = o;
  fo.fixed_di = pa.di;
  fo.fixed_ci = pa.ci;
  GFile f = gen_file(s, fo);
  Injected in = inject(s, f);
  cons[vi].file->raw_override = in.text;
  cons[vi].file->has_override = true;
  materialise(t, pa, g_scr.dir);
  std::string expect_path = cons[vi].path(g_scr.dir);
  g_case.desc = "tree " + describe(t, pa) + " victim=" + cons[vi].rel + " kind=" + KIND_NAME[in.kind] + " line=" +
                std::to_string(in.line) + " content='" + esc(in.text) + "'";
  g_case.tag(std::string("kind_") + KIND_NAME[in.kind]);
  g_case.tag("tree_member");
  if (cons[vi].is_dropin) g_case.tag("in_dropin");
  if (vi > 0) g_case.tag("victim_not_first_consulted");
  if (in.not_first) g_case.tag("not_first_line");
  g_case.nontrivial = in.not_first || cons[vi].is_dropin;
  g_case.shape_hash = fnv_u64((uint64_t)in.kind * 100000 + (uint64_t)in.line * 100 + vi, tree_shape(t, pa));

  // an earlier consulted file may legitimately stop the read first only if it is malformed too - none is.
  CbCtx cbx;
  ReadResult rr = read_tree(t, pa, g_scr.dir, s.chance(50) ? RM_CONFIG_CB : RM_CONFIG, &cbx);
  bool handed = rr.kf != nullptr;
  bool keyless = false;
  if (handed) {
    // readConfig with a caller-provided options object keeps that (key-less) object
    Observed ob = observe(rr.kf);
    keyless = ob.groups.empty() && (ob.keys.empty() || ob.keys[0].second.empty());
    econf_freeFile(rr.kf);
  }
  cleanup_tree(g_scr.dir);
  VF_CHECK(rr.rc == KIND_CODE[in.kind], "wrong-code",
           "layered read: rc=" << rr.rc << " (" << econf_errString(rr.rc) << ") expected " << KIND_CODE[in.kind]
                               << " (" << econf_errString(KIND_CODE[in.kind]) << ")");
  VF_CHECK(!handed || (rr.caller_object && keyless), "partial-result",
           "layered read failed but handed back an object with content");
  check_location(expect_path, in.line, "layered read");
}

int main(int argc, char **argv) {
  Harness h;
  h.property_id = "C13";
  h.run = run;
  h.base = 32;
  h.per_size = 14;
  h.setup = [] { g_scr.init(); };
  h.teardown = [] { g_scr.cleanup(); };
  return engine_main(argc, argv, h);
}
