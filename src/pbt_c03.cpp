// C03 - merging two configurations is a complete, ordered, non-destructive override
//
// rapidcheck part: random larger pairs.  --mode exh L shard nshards: every
// ordered pair of entry lists of length <= L over {group-less,A,B} x {x,y}.
// --mode empties: the four kinds of empty object on either side.
#include <algorithm>
#include <set>

#include "common/engine.hpp"
#include "common/fsutil.hpp"
#include "common/gen_text.hpp"
#include "common/model.hpp"

using namespace vf;
static Scratch g_scr;

struct LEntry {
  std::string sec, key, val;
  bool null_value = false;  // only through a parsed bare "k=" (value NULL)
};
typedef std::vector<LEntry> EList;

enum Build { B_SETTERS, B_PARSE, B_NEWKEYFILE_EMPTY, B_INIFILE_EMPTY, B_OPTIONS_EMPTY, B_PARSED_EMPTY,
             B_READCONFIG,  // the printed file read through econf_readConfig (PARSING_DIRS): a layered-read result
             B_MERGED };    // the setter-built object merged over an empty one: a merge result as input

// key-less section headers added to the printed form of an input (parsed builds only): (entry index the header
// is printed in front of, or the list's length for "at the end"; section name). [0] base, [1] override.
static std::vector<std::pair<size_t, std::string>> g_extra_hdr[2];

static bool has_dup(const EList &l) {
  for (size_t i = 0; i < l.size(); i++)
    for (size_t j = 0; j < i; j++)
      if (l[i].sec == l[j].sec && l[i].key == l[j].key) return true;
  return false;
}
static bool groupless_leading(const EList &l) {
  bool seen_sec = false;
  for (auto &e : l) {
    if (!e.sec.empty())
      seen_sec = true;
    else if (seen_sec)
      return false;
  }
  return true;
}
static bool reopens(const EList &l) {
  std::vector<std::string> closed;
  std::string cur = "\x01";
  for (auto &e : l) {
    if (e.sec != cur) {
      for (auto &c : closed)
        if (c == e.sec) return true;
      if (cur != "\x01") closed.push_back(cur);
      cur = e.sec;
    }
  }
  return false;
}

static std::string print_list(const EList &l, int tag = -1) {
  std::string t, cur;
  for (size_t ei = 0; ei <= l.size(); ei++) {
    if (tag >= 0)
      for (auto &xh : g_extra_hdr[tag])
        if (xh.first == ei && (ei == l.size() || (!l[ei].sec.empty() && l[ei].sec != xh.second))) {
          t += "[" + xh.second + "]\n";
          cur = xh.second;
        }
    if (ei == l.size()) break;
    const LEntry &e = l[ei];
    if (e.sec != cur) {
      t += "[" + e.sec + "]\n";
      cur = e.sec;
    }
    // multi-line values: continuation lines are indented
    std::string v = e.val;
    size_t p = 0;
    std::string out;
    while (true) {
      size_t q = v.find('\n', p);
      if (q == std::string::npos) {
        out += v.substr(p);
        break;
      }
      out += v.substr(p, q - p) + "\n";
      p = q + 1;
    }
    bool multi = out.find('\n') != std::string::npos;
    // comments travel with the entries: a result that shares them with a freed input is a use after free
    t += "# before " + e.key + "\n";
    t += e.key + "=" + out + (multi || out.empty() ? "" : " # after " + e.key) + "\n";
  }
  return t;
}

static std::string show_list_fwd(const std::vector<LEntry> &l);
// realise a list through the public API; returns nullptr if not realisable in the requested way
static econf_file *realise(const EList &l, Build how, int tag) {
  econf_file *kf = nullptr;
  econf_err e;
  switch (how) {
    case B_SETTERS: {
      // (the override carries other tags than the base: the result takes the base's - libeconf.h, econf_mergeFiles)
      e = tag == 1 ? econf_newKeyFile(&kf, ':', ';') : econf_newKeyFile(&kf, '=', '#');
      VF_CHECK(e == ECONF_SUCCESS && kf, "harness", "newKeyFile failed");
      for (auto &x : l) {
        e = econf_setStringValue(kf, x.sec.empty() ? nullptr : x.sec.c_str(), x.key.c_str(), x.val.c_str());
        VF_CHECK(e == ECONF_SUCCESS, "harness", "setStringValue failed rc=" << e);
      }
      return kf;
    }
    case B_PARSE:
    case B_PARSED_EMPTY: {
      std::string path = g_scr.dir + "/in" + std::to_string(tag) + ".conf";
      write_file(path, how == B_PARSED_EMPTY ? std::string() : print_list(l, tag));
      e = econf_readFile(&kf, path.c_str(), "=", "#");
      VF_CHECK(e == ECONF_SUCCESS && kf, "harness", "readFile of a generated input failed rc=" << e);
      return kf;
    }
    case B_READCONFIG: {
      std::string dir = g_scr.dir + "/rc" + std::to_string(tag);
      mkdir_p(dir);
      write_file(dir + "/vfm.conf", print_list(l, tag));
      e = econf_newKeyFile_with_options(&kf, ("PARSING_DIRS=" + dir).c_str());
      VF_CHECK(e == ECONF_SUCCESS && kf, "harness", "newKeyFile_with_options failed rc=" << e);
      e = econf_readConfig(&kf, nullptr, nullptr, "vfm", "conf", "=", "#");
      VF_CHECK(e == ECONF_SUCCESS && kf, "harness", "readConfig of a generated input failed rc=" << e);
      return kf;
    }
    case B_MERGED: {
      econf_file *a = realise(l, B_SETTERS, tag), *b = nullptr, *m = nullptr;
      e = econf_newKeyFile(&b, '=', '#');
      VF_CHECK(e == ECONF_SUCCESS && b, "harness", "newKeyFile failed");
      e = econf_mergeFiles(&m, a, b);
      econf_freeFile(a);
      econf_freeFile(b);
      VF_CHECK(e == ECONF_SUCCESS && m, "merge-failed", "merge of " << show_list_fwd(l) << " over an empty object rc=" << e);
      return m;
    }
    case B_NEWKEYFILE_EMPTY:
      e = econf_newKeyFile(&kf, '=', '#');
      VF_CHECK(e == ECONF_SUCCESS && kf, "harness", "newKeyFile failed");
      return kf;
    case B_INIFILE_EMPTY:
      e = econf_newIniFile(&kf);
      VF_CHECK(e == ECONF_SUCCESS && kf, "harness", "newIniFile failed");
      return kf;
    case B_OPTIONS_EMPTY:
      e = econf_newKeyFile_with_options(&kf, "");
      VF_CHECK(e == ECONF_SUCCESS && kf, "harness", "newKeyFile_with_options failed");
      return kf;
  }
  return nullptr;
}

static std::string show_list(const EList &l);
static std::string show_list_fwd(const std::vector<LEntry> &l) { return show_list(l); }
static std::string show_list(const EList &l) {
  std::string r = "[";
  for (auto &e : l) r += "(" + (e.sec.empty() ? std::string("-") : esc(e.sec)) + "." + esc(e.key) + "=" + esc(e.val) + ")";
  return r + "]";
}

static std::string written_bytes(econf_file *kf, const char *name) {
  econf_err e = econf_writeFile(kf, g_scr.dir.c_str(), name);
  if (e != ECONF_SUCCESS) return "<write rc=" + std::to_string(e) + ">";
  std::string b;
  read_file_bytes(g_scr.dir + "/" + name, b);
  return b;
}

static std::vector<std::string> dedup(const std::vector<std::string> &v) {
  std::vector<std::string> r;
  for (auto &x : v)
    if (std::find(r.begin(), r.end(), x) == r.end()) r.push_back(x);
  return r;
}
static std::vector<std::string> sections_of(const EList &l) {  // key-bearing, order of first appearance, "" excluded
  std::vector<std::string> r;
  for (auto &e : l)
    if (!e.sec.empty() && std::find(r.begin(), r.end(), e.sec) == r.end()) r.push_back(e.sec);
  return r;
}
static std::vector<std::string> keys_of(const EList &l, const std::string &s) {
  std::vector<std::string> r;
  for (auto &e : l)
    if (e.sec == s) r.push_back(e.key);
  return r;
}
static const LEntry *first_def(const EList &l, const std::string &s, const std::string &k) {
  for (auto &e : l)
    if (e.sec == s && e.key == k) return &e;
  return nullptr;
}
static bool contiguous(const EList &l, const std::string &s) {
  int runs = 0;
  bool in = false;
  for (auto &e : l) {
    if (e.sec == s) {
      if (!in) runs++;
      in = true;
    } else
      in = false;
  }
  return runs <= 1;
}

// the whole oracle for one pair
static void check_pair(const EList &bl, Build bh, const EList &ol, Build oh) {
  econf_file *base = realise(bl, bh, 0), *over = realise(ol, oh, 1);
  std::string ctx = "base=" + show_list(bl) + " (build " + std::to_string(bh) + ") override=" + show_list(ol) +
                    " (build " + std::to_string(oh) + ")";
  // M6 part 1
  std::string db = full_dump(base), dov = full_dump(over);
  std::string wb = written_bytes(base, "b.out"), wo = written_bytes(over, "o.out");
  const char base_d = econf_delimiter_tag(base), base_c = econf_comment_tag(base);
  econf_file *R = (econf_file *)-1;
  econf_err e = econf_mergeFiles(&R, base, over);
  // the same merge once more, and the reverse one in between: a merge must not depend on merges that came before
  econf_file *Rrev = (econf_file *)-1, *R2 = (econf_file *)-1;
  econf_err erev = econf_mergeFiles(&Rrev, over, base);
  econf_err e2m = econf_mergeFiles(&R2, base, over);
  if (erev == ECONF_SUCCESS && Rrev && Rrev != (econf_file *)-1) econf_freeFile(Rrev);
  std::string db2 = full_dump(base), dov2 = full_dump(over);
  std::string wb2 = written_bytes(base, "b.out"), wo2 = written_bytes(over, "o.out");
  econf_freeFile(base);
  econf_freeFile(over);  // M7: R must not depend on them
  if (!(e == ECONF_SUCCESS && R && R != (econf_file *)-1) && e2m == ECONF_SUCCESS && R2 && R2 != (econf_file *)-1) econf_freeFile(R2);
  VF_CHECK(e == ECONF_SUCCESS && R && R != (econf_file *)-1, "merge-failed", ctx << ": econf_mergeFiles rc=" << e);
  {
    VF_CHECK(e2m == ECONF_SUCCESS && R2 && R2 != (econf_file *)-1, "merge-failed", ctx << ": the same merge a second time: rc=" << e2m);
    std::string d1 = full_dump(R, true), d2 = full_dump(R2, true);
    std::string l1 = show(observe(R)), l2 = show(observe(R2));
    econf_freeFile(R2);
    VF_CHECK(d1 == d2 && l1 == l2, "second-merge-differs", ctx << ": merging the same pair a second time gave another result\nfirst:\n" << l1 << d1 << "second:\n" << l2 << d2);
    if (base_d != 0)
      VF_CHECK(econf_delimiter_tag(R) == base_d && econf_comment_tag(R) == base_c, "wrong-tags",
               ctx << ": the result's delimiter/comment tags are '" << econf_delimiter_tag(R) << "' '" << econf_comment_tag(R) << "', the base's are '" << base_d << "' '" << base_c << "'");
  }
  Observed ob = observe(R);
  std::string rdump = full_dump(R, true);  // every field of every entry must be the result's own copy (ASan: use after free)
  (void)rdump;
  char *pth = econf_getPath(R);
  std::string path = pth ? pth : "<NULL>";
  free(pth);
  // written form of R read back: group-less keys must still be group-less (they were emitted first)
  // (the result inherits the base's tags; an options-created base has none, so set them for the write)
  econf_set_delimiter_tag(R, '=');
  econf_set_comment_tag(R, '#');
  std::string wr = written_bytes(R, "r.out");
  econf_file *RR = nullptr;
  econf_err e2 = econf_readFile(&RR, (g_scr.dir + "/r.out").c_str(), "=", "#");
  Observed ob2;
  if (e2 == ECONF_SUCCESS) {
    ob2 = observe(RR);
    econf_freeFile(RR);
  }
  econf_freeFile(R);
  std::string shown = "\nresult:\n" + show(ob);
  VF_CHECK(ob.error.empty(), "result-unusable", ctx << ": " << ob.error << shown);
  VF_CHECK(db == db2 && wb == wb2, "input-modified", ctx << ": base changed by the merge\nbefore:\n" << db << "after:\n" << db2);
  VF_CHECK(dov == dov2 && wo == wo2, "input-modified", ctx << ": override changed by the merge\nbefore:\n" << dov << "after:\n" << dov2);
  VF_CHECK(path == "", "path-not-empty", ctx << ": econf_getPath(result) = '" << path << "' expected ''");

  // collect R's listing
  std::map<std::string, std::vector<std::string>> rkeys;
  std::vector<std::string> rsecs;  // key-bearing sections in listing order
  for (auto &sk : ob.keys) {
    rkeys[sk.first] = sk.second;
    if (!sk.first.empty() && !sk.second.empty()) rsecs.push_back(sk.first);
  }
  // domain
  std::set<std::pair<std::string, std::string>> dom;
  for (auto &x : bl) dom.insert({x.sec, x.key});
  for (auto &x : ol) dom.insert({x.sec, x.key});
  // M1 visible values
  for (auto &d : dom) {
    const LEntry *want = first_def(ol, d.first, d.second);
    if (!want) want = first_def(bl, d.first, d.second);
    auto it = ob.vals.find(d);
    VF_CHECK(it != ob.vals.end(), "key-lost", ctx << ": (" << esc(d.first) << "," << esc(d.second) << ") missing from the result" << shown);
    std::string got = it->second ? *it->second : "";
    VF_CHECK(got == want->val, "wrong-value",
             ctx << ": (" << esc(d.first) << "," << esc(d.second) << ") = '" << esc(got) << "' expected '" << esc(want->val) << "'" << shown);
  }
  // M2 nothing else
  for (auto &sk : ob.keys)
    for (auto &k : sk.second)
      VF_CHECK(dom.count({sk.first, k}), "invented-key", ctx << ": result lists (" << esc(sk.first) << "," << esc(k) << ") which neither input has" << shown);
  // M3 multiplicities
  for (auto &d : dom) {
    size_t mb = 0, mo = 0, mr = 0;
    for (auto &x : bl) mb += x.sec == d.first && x.key == d.second;
    for (auto &x : ol) mo += x.sec == d.first && x.key == d.second;
    for (auto &k : rkeys[d.first]) mr += k == d.second;
    // (repeated definitions inside the override never multiply a key: its first definition is the one that counts)
    if (mb <= 1)
      VF_CHECK(mr == 1, "duplicate-key", ctx << ": (" << esc(d.first) << "," << esc(d.second) << ") listed " << mr << " times" << shown);
    else
      VF_CHECK(mr >= 1 && mr <= mb + mo, "duplicate-key", ctx << ": (" << esc(d.first) << "," << esc(d.second) << ") listed " << mr << " times, inputs " << mb << "+" << mo << shown);
  }
  // M4 key order per section
  std::vector<std::string> allsecs = {""};
  for (auto &x : sections_of(bl)) allsecs.push_back(x);
  for (auto &x : sections_of(ol))
    if (std::find(allsecs.begin(), allsecs.end(), x) == allsecs.end()) allsecs.push_back(x);
  for (auto &sct : allsecs) {
    std::vector<std::string> B = dedup(keys_of(bl, sct)), O = dedup(keys_of(ol, sct)), Rk = dedup(rkeys[sct]);
    std::vector<std::string> Oonly;
    for (auto &k : O)
      if (std::find(B.begin(), B.end(), k) == B.end()) Oonly.push_back(k);
    std::vector<std::string> rB, rO;
    for (auto &k : Rk) {
      if (std::find(B.begin(), B.end(), k) != B.end())
        rB.push_back(k);
      else
        rO.push_back(k);
    }
    VF_CHECK(rB == B, "key-order", ctx << ": base keys of [" << esc(sct) << "] changed their relative order" << shown);
    VF_CHECK(rO == Oonly, "key-order", ctx << ": override-only keys of [" << esc(sct) << "] not in override order" << shown);
    if (contiguous(bl, sct) && !B.empty() && !Oonly.empty()) {
      // every base key precedes every override-only key
      size_t last_base = 0, first_over = Rk.size();
      for (size_t i = 0; i < Rk.size(); i++) {
        if (std::find(B.begin(), B.end(), Rk[i]) != B.end())
          last_base = i;
        else
          first_over = std::min(first_over, i);
      }
      VF_CHECK(last_base < first_over, "key-order", ctx << ": override-only key precedes a base key in [" << esc(sct) << "]" << shown);
    }
  }
  // M5 section order
  {
    std::vector<std::string> want = sections_of(bl);
    for (auto &x : sections_of(ol))
      if (std::find(want.begin(), want.end(), x) == want.end()) want.push_back(x);
    // a section the base opens without any key and the override fills: the statement does not say whether it counts
    // as the base's (position of the header) or as override-only (last) - its position is not judged
    {
      std::vector<std::string> bsec = sections_of(bl);
      for (auto &xh : g_extra_hdr[0])
        if (std::find(bsec.begin(), bsec.end(), xh.second) == bsec.end()) {
          want.erase(std::remove(want.begin(), want.end(), xh.second), want.end());
          rsecs.erase(std::remove(rsecs.begin(), rsecs.end(), xh.second), rsecs.end());
        }
    }
    VF_CHECK(rsecs == want, "section-order", ctx << ": key-bearing sections of the result are not base order + override-only" << shown);
    // group-less first (observable through the writer: a group-less key emitted after a header changes section)
    if (e2 == ECONF_SUCCESS) {
      std::vector<std::string> g2;
      for (auto &sk : ob2.keys)
        if (sk.first.empty()) g2 = sk.second;
      VF_CHECK(dedup(g2) == dedup(rkeys[""]), "groupless-not-first",
               ctx << ": after write/read the group-less keys differ (a group-less key was placed after a section)" << shown
                   << "written:\n" << wr);
    }
  }
}

// ------------------------------------------------------------------ enumeration
static const char *SECS[3] = {"", "A", "B"};
static const char *KEYS[2] = {"x", "y"};

static void all_lists(int L, std::vector<EList> &out) {
  std::vector<EList> cur = {EList()};
  out.push_back(EList());
  for (int n = 1; n <= L; n++) {
    std::vector<EList> nxt;
    for (auto &l : cur)
      for (int sk = 0; sk < 6; sk++) {
        EList m = l;
        m.push_back({SECS[sk / 2], KEYS[sk % 2], ""});
        nxt.push_back(m);
      }
    for (auto &l : nxt) out.push_back(l);
    cur.swap(nxt);
  }
}
static void tag_values(EList &l, const char *pfx) {
  for (size_t i = 0; i < l.size(); i++) l[i].val = pfx + std::to_string(i);
}
static bool pick_build(const EList &l, Build &how) {
  if (!has_dup(l)) {
    how = B_SETTERS;
    return true;
  }
  if (groupless_leading(l)) {
    how = B_PARSE;
    return true;
  }
  return false;
}

static void tag_pair_classes(const EList &bl, const EList &ol) {
  if (bl.empty()) g_case.tag("base_empty");
  if (ol.empty()) g_case.tag("override_empty");
  if (reopens(bl)) g_case.tag("base_reopens_section");
  if (reopens(ol)) g_case.tag("override_reopens_section");
  if (!groupless_leading(bl)) g_case.tag("base_nonleading_groupless");
  if (!groupless_leading(ol)) g_case.tag("override_nonleading_groupless");
  bool og = false;
  for (auto &x : ol)
    if (x.sec.empty() && !first_def(bl, "", x.key)) og = true;
  if (og) g_case.tag("override_only_groupless");
  bool share = false;
  for (auto &x : bl)
    for (auto &y : ol) share = share || x.sec == y.sec;
  g_case.nontrivial = bl.empty() || ol.empty() || share;
}

static int exhaustive(int L, int shard, int nshards, long only_i = -1, long only_j = -1) {
  std::vector<EList> lists;
  all_lists(L, lists);
  uint64_t done = 0, skipped = 0, idx = 0;
  for (size_t i = 0; i < lists.size(); i++) {
    if (only_i >= 0 && (long)i != only_i) continue;
    Build bh;
    EList bl = lists[i];
    tag_values(bl, "b");
    bool bok = pick_build(bl, bh);
    for (size_t j = 0; j < lists.size(); j++, idx++) {
      if (only_j >= 0 ? (long)j != only_j : (int)(idx % (uint64_t)nshards) != shard) continue;
      Build oh;
      EList ol = lists[j];
      tag_values(ol, "o");
      if (!bok || !pick_build(ol, oh)) {
        skipped++;
        continue;
      }
      g_case.clear();
      g_case.shape_hash = fnv_u64(i * 100000 + j, 77);
      tag_pair_classes(bl, ol);
      g_case.desc = "base=" + show_list(bl) + " override=" + show_list(ol);
      try {
        check_pair(bl, bh, ol, oh);
      } catch (const Fail &f) {
        printf("EXHAUSTIVE FAIL symptom=%s\n%s\n", f.symptom.c_str(), f.detail.c_str());
        write_mode_case("pair " + std::to_string(L) + " " + std::to_string(i) + " " + std::to_string(j), f.symptom, f.detail);
        stats_commit_case();
        return 10;
      }
      stats_commit_case();
      done++;
    }
  }
  stats_add("exh_pairs_checked", done);
  stats_add("exh_pairs_unrealisable", skipped);
  char b[256];
  snprintf(b, sizeof b, "{\"space\":\"all ordered pairs of entry lists of length<=%d over {-,A,B}x{x,y}\",\"lists\":%zu,\"shard\":%d,\"of\":%d,\"pairs_checked\":%llu,\"pairs_unrealisable\":%llu}",
           L, lists.size(), shard, nshards, (unsigned long long)done, (unsigned long long)skipped);
  stats_note("exhaustive", b);
  return 0;
}

static int empties() {
  std::vector<EList> lists;
  all_lists(2, lists);
  Build kinds[4] = {B_NEWKEYFILE_EMPTY, B_INIFILE_EMPTY, B_OPTIONS_EMPTY, B_PARSED_EMPTY};
  uint64_t done = 0;
  for (Build k : kinds) {
    for (auto &l0 : lists) {
      EList l = l0;
      Build h;
      tag_values(l, "v");
      if (!pick_build(l, h)) continue;
      for (int side = 0; side < 2; side++) {
        g_case.clear();
        g_case.nontrivial = true;
        g_case.shape_hash = fnv_u64((uint64_t)k * 1000000 + done, 99);
        g_case.tag("empty_constructor_object");
        g_case.desc = std::string("empty object kind ") + std::to_string(k) + (side ? " as override of " : " as base under ") + show_list(l);
        try {
          if (side == 0)
            check_pair(EList(), k, l, h);
          else
            check_pair(l, h, EList(), k);
        } catch (const Fail &f) {
          printf("EMPTIES FAIL symptom=%s\n%s\n", f.symptom.c_str(), f.detail.c_str());
          write_mode_case("empties", f.symptom, f.detail);
          stats_commit_case();
          return 10;
        }
        stats_commit_case();
        done++;
      }
    }
    // empty against empty, all kinds
    for (Build k2 : kinds) {
      g_case.clear();
      g_case.nontrivial = true;
      g_case.shape_hash = fnv_u64((uint64_t)k * 10 + k2, 101);
      g_case.tag("two_empty_objects");
      g_case.desc = "two empty objects";
      try {
        check_pair(EList(), k, EList(), k2);
      } catch (const Fail &f) {
        printf("EMPTIES FAIL symptom=%s\n%s\n", f.symptom.c_str(), f.detail.c_str());
        write_mode_case("empties", f.symptom, f.detail);
        stats_commit_case();
        return 10;
      }
      stats_commit_case();
      done++;
    }
  }
  return 0;
}

// ------------------------------------------------------------------ random larger pairs
static EList gen_list(Src &s, const char *pfx) {
  static const std::vector<std::string> secs = {"", "A", "B", "Sec C", "D", "E"};
  static const std::vector<std::string> keys = {"k1", "k2", "k3", "k4", "k5", "k6", "Ab", "BA"};  // (Ab / BA: same djb2 hash)
  EList l;
  size_t style = s.weighted({50, 30, 20});  // 0 arbitrary interleaving, 1 grouped (file-like), 2 few sections
  std::string cur;
  int n = 0;
  for (;;) {
    auto sp = s.span();
    if (!(n < 30 && s.chance(85))) break;
    LEntry e;
    if (style == 1) {
      if (s.chance(25)) cur = secs[1 + s.below(5)];
      e.sec = cur;
    } else if (style == 2)
      e.sec = secs[s.below(3)];
    else
      e.sec = secs[s.below(6)];
    e.key = keys[s.below(8)];
    size_t vk = s.weighted({70, 10, 20});
    e.val = std::string(pfx) + std::to_string(n);
    if (vk == 1) e.val = "";
    if (vk == 2) e.val += "\n  more " + std::to_string(n);
    l.push_back(e);
    n++;
  }
  return l;
}

static void run(Src &s) {
  EList bl = gen_list(s, "b"), ol = gen_list(s, "o");
  Build bh, oh;
  // make the lists realisable: if a list has duplicates and a non-leading group-less entry, drop the duplicates
  auto fix = [](EList &l) {
    if (has_dup(l) && !groupless_leading(l)) {
      EList m;
      for (auto &e : l)
        if (!first_def(m, e.sec, e.key)) m.push_back(e);
      l.swap(m);
    }
  };
  fix(bl);
  fix(ol);
  pick_build(bl, bh);
  pick_build(ol, oh);
  // how the inputs come into being: setters, a parsed file, a layered-read result (econf_readConfig), a merge result
  g_extra_hdr[0].clear();
  g_extra_hdr[1].clear();
  auto vary = [&](EList &l, Build &how, int tag) {
    static const std::vector<std::string> hsecs = {"A", "B", "Sec C", "D", "E", "F"};
    bool gl = groupless_leading(l);
    if (how == B_PARSE) {
      if (s.chance(40)) how = B_READCONFIG;
    } else {
      size_t w = s.weighted({40, 25, 20, 15});
      if (w == 1 && gl) how = B_PARSE;
      if (w == 2 && gl) how = B_READCONFIG;
      if (w == 3) {
        // a merge result lists its entries section by section
        EList m;
        for (auto &e : l)
          if (e.sec.empty()) m.push_back(e);
        for (auto &sn : sections_of(l))
          for (auto &e : l)
            if (e.sec == sn) m.push_back(e);
        l.swap(m);
        how = B_MERGED;
      }
    }
    if ((how == B_PARSE || how == B_READCONFIG) && s.chance(35)) {
      int n = 1 + (int)s.below(2);
      for (int i = 0; i < n; i++) {
        size_t pos = s.below((uint32_t)l.size() + 1);
        const std::string &nm = hsecs[s.below(6)];
        // not in front of a group-less entry (it would adopt it) nor of an entry of the same section
        if (pos == l.size() || (!l[pos].sec.empty() && l[pos].sec != nm)) g_extra_hdr[tag].push_back({pos, nm});
      }
      if (!g_extra_hdr[tag].empty()) g_case.tag(tag == 0 ? "base_keyless_header" : "override_keyless_header");
    }
  };
  vary(bl, bh, 0);
  vary(ol, oh, 1);
  {
    // a header the base opens without keys for a section in which the override has keys
    std::vector<std::string> bsec = sections_of(bl), osec = sections_of(ol);
    for (auto &xh : g_extra_hdr[0])
      if (std::find(bsec.begin(), bsec.end(), xh.second) == bsec.end() && std::find(osec.begin(), osec.end(), xh.second) != osec.end())
        g_case.tag("base_keyless_section_filled_by_override");
  }
  // a parsed multi-line value is stored with its indentation; setter-built keeps it as given: same text here
  tag_pair_classes(bl, ol);
  static const char *BN[8] = {"setters", "parsed", "", "", "", "", "readconfig", "merged"};
  g_case.tag(std::string("base_") + BN[bh]);
  g_case.tag(std::string("override_") + BN[oh]);
  auto hdrs = [](int tag) {
    std::string r;
    for (auto &xh : g_extra_hdr[tag]) r += " +[" + xh.second + "]@" + std::to_string(xh.first);
    return r;
  };
  g_case.desc = "base=" + show_list(bl) + " (" + BN[bh] + hdrs(0) + ") override=" + show_list(ol) + " (" + BN[oh] + hdrs(1) + ")";
  uint64_t h = 5;
  h = fnv_u64((uint64_t)bh * 16 + (uint64_t)oh, h);
  for (int tg = 0; tg < 2; tg++)
    for (auto &xh : g_extra_hdr[tg]) h = fnv(xh.second, fnv_u64(xh.first * 2 + (uint64_t)tg, h));
  for (auto &e : bl) h = fnv(e.sec + "." + e.key, h);
  h = fnv_u64(1, h);
  for (auto &e : ol) h = fnv(e.sec + "." + e.key, h);
  g_case.shape_hash = h;
  check_pair(bl, bh, ol, oh);
}

int main(int argc, char **argv) {
  Harness h;
  h.property_id = "C03";
  h.run = run;
  h.base = 16;
  h.per_size = 4;
  h.setup = [] { g_scr.init(); };
  h.teardown = [] { g_scr.cleanup(); };
  h.extra = [](const std::string &mode, int argc, char **argv) -> int {
    if (mode == "exh" && argc >= 3) return exhaustive(atoi(argv[0]), atoi(argv[1]), atoi(argv[2]));
    if (mode == "pair" && argc >= 3) return exhaustive(atoi(argv[0]), 0, 1, atol(argv[1]), atol(argv[2]));
    if (mode == "empties") return empties();
    return -1;
  };
  return engine_main(argc, argv, h);
}
