// C17 - provenance metadata (path, line, comments, value lines) matches the source file
#include "common/engine.hpp"
#include "common/fsutil.hpp"
#include "common/gen_text.hpp"
#include "common/model.hpp"

using namespace vf;
static Scratch g_scr;

static std::vector<std::string> split_nl(const std::string &s) {
  std::vector<std::string> r;
  size_t p = 0;
  for (;;) {
    size_t q = s.find('\n', p);
    if (q == std::string::npos) {
      r.push_back(s.substr(p));
      break;
    }
    r.push_back(s.substr(p, q - p));
    p = q + 1;
  }
  return r;
}
static std::string join_show(const std::vector<std::string> &v) {
  std::string r;
  for (auto &x : v) r += "'" + esc(x) + "' ";
  return r;
}

static void run(Src &s) {
  GOpts o;
  o.allowed_di = {0, 1, 2, 3};  // NONBLANK and BLANK classes
  o.header_trail = false;       // a header's trailing comment is nobody's "comment of its line"
  o.cont_after_quoted = true;   // "quoted" first line followed by continuation lines: the value does not start with a quote
  o.max_lines = 30;
  o.comment_chars_in_comments = true;
  GFile f = gen_file(s, o);
  size_t how = s.weighted({60, 20, 10, 10});  // absolute, relative, ./relative, sub/../relative
  std::string abs = g_scr.dir + "/f.conf", given = abs;
  if (how == 1) given = "f.conf";
  if (how == 2) given = "./f.conf";
  if (how == 3) given = "sub/../f.conf";
  write_file(abs, f.text());
  g_case.desc = describe(f) + " read as '" + given + "'";
  tag_file_classes(f);
  if (how != 0) g_case.tag("relative_name");
  bool multi_with_block = false, detached = false, cont_trail = false, block2 = false;
  for (auto &e : f.entries) {
    if (e.block_before.size() >= 2) block2 = true;
    if (e.comments_since_prev.size() > e.block_before.size()) detached = true;
    for (size_t i = 1; i < e.trail.size(); i++)
      if (e.trail[i]) cont_trail = true;
    if (e.last_line > e.first_line) multi_with_block = true;
  }
  if (detached) g_case.tag("detached_comment_block");
  if (cont_trail) g_case.tag("trailing_comment_on_continuation");
  if (block2) g_case.tag("comment_block_2plus");
  g_case.nontrivial = block2 || multi_with_block || cont_trail;
  g_case.shape_hash = fnv_u64(how, f.skeleton());

  econf_file *kf = nullptr;
  econf_err e = econf_readFile(&kf, given.c_str(), f.D.c_str(), f.C.c_str());
  VF_CHECK(e == ECONF_SUCCESS && kf, "read-failed", "econf_readFile('" << given << "') rc=" << e);
  struct Guard {
    econf_file *k;
    ~Guard() { econf_freeFile(k); }
  } guard{kf};
  char *pth = econf_getPath(kf);
  std::string path = pth ? pth : "<NULL>";
  free(pth);
  VF_CHECK(path == abs, "wrong-path", "econf_getPath = '" << path << "' expected '" << abs << "'");

  // each distinct (section,key): the first definition is what the getters see
  for (size_t i = 0; i < f.entries.size(); i++) {
    const AEntry &en = f.entries[i];
    bool first = true;
    for (size_t j = 0; j < i; j++)
      if (f.entries[j].section == en.section && f.entries[j].key == en.key) first = false;
    if (!first) continue;
    econf_ext_value *ev = nullptr;
    e = econf_getExtValue(kf, en.section.empty() ? nullptr : en.section.c_str(), en.key.c_str(), &ev);
    VF_CHECK(e == ECONF_SUCCESS && ev, "ext-failed", "econf_getExtValue([" << esc(en.section) << "]," << esc(en.key) << ") rc=" << e);
    std::string file = ev->file ? ev->file : "<NULL>";
    uint64_t line = ev->line_number;
    bool cb_null = ev->comment_before_key == nullptr, ca_null = ev->comment_after_value == nullptr;
    std::string cb = cb_null ? "" : ev->comment_before_key, ca = ca_null ? "" : ev->comment_after_value;
    std::vector<std::string> vals;
    for (char **p = ev->values; p && *p; p++) vals.push_back(*p);
    econf_freeExtValue(ev);
    std::string id = "[" + esc(en.section) + "] " + esc(en.key) + " (lines " + std::to_string(en.first_line) + "-" + std::to_string(en.last_line) + ")";

    VF_CHECK(file == abs, "wrong-file", id << ": file = '" << file << "' expected '" << abs << "'");
    VF_CHECK(line == (uint64_t)en.last_line, "wrong-line", id << ": line_number = " << line << " expected " << en.last_line);
    // comment_before: lines taken, in order, from the comment lines since the previous entry, ending with the
    // block directly preceding the entry
    {
      std::vector<std::string> got = cb_null ? std::vector<std::string>() : split_nl(cb);
      const auto &all = en.comments_since_prev;
      // subsequence check
      size_t k = 0;
      for (auto &g : got) {
        while (k < all.size() && all[k] != g) k++;
        VF_CHECK(k < all.size(), "wrong-comment-before", id << ": comment_before " << join_show(got) << "is not made of the comment lines before the entry " << join_show(all));
        k++;
      }
      VF_CHECK(got.size() >= en.block_before.size(), "wrong-comment-before", id << ": comment_before " << join_show(got) << "lacks the block directly preceding the entry " << join_show(en.block_before));
      for (size_t q = 0; q < en.block_before.size(); q++)
        VF_CHECK(got[got.size() - en.block_before.size() + q] == en.block_before[q], "wrong-comment-before",
                 id << ": comment_before " << join_show(got) << "does not end with the preceding block " << join_show(en.block_before));
    }
    // comment_after
    if (en.last_line == en.first_line) {
      std::string want = en.trail.empty() || !en.trail[0] ? std::string() : *en.trail[0];
      VF_CHECK(ca == want, "wrong-comment-after", id << ": comment_after = '" << esc(ca) << "' expected '" << esc(want) << "'");
    } else {
      std::vector<std::string> got, want;
      if (!ca_null)
        for (auto &x : split_nl(ca))
          if (!trim_blanks(x).empty()) got.push_back(trim_blanks(x));
      for (auto &t : en.trail)
        if (t && !trim_blanks(*t).empty()) want.push_back(trim_blanks(*t));
      VF_CHECK(got == want, "wrong-comment-after", id << ": trailing comments " << join_show(got) << "expected " << join_show(want));
    }
    // values
    {
      std::vector<std::string> want;
      if (f.cls != DC_NONE) {
        if ((en.quoted && en.last_line == en.first_line) || en.verbatim_quote)
          want = {trim_blanks(en.raw_value)};
        else
          want = en.lines_trimmed;
      }
      // an entry written as "k=" followed by continuation lines has an empty first line; the extended getter
      // trims the value as a whole first, so empty items at either end are not part of the claim (DESIGN 8.3)
      auto strip = [](std::vector<std::string> v) {
        while (!v.empty() && v.front().empty()) v.erase(v.begin());
        while (!v.empty() && v.back().empty()) v.pop_back();
        return v;
      };
      bool empty_ok = strip(vals) == strip(want);
      {
        // ... and if what remains after that trim starts with a quote, it is "a value starting with a quote": one item
        std::string whole = en.raw_value;
        size_t a = whole.find_first_not_of(" \t\n"), b = whole.find_last_not_of(" \t\n");
        whole = a == std::string::npos ? std::string() : whole.substr(a, b - a + 1);
        if (!whole.empty() && whole[0] == '"' && vals.size() == 1 && vals[0] == whole) empty_ok = true;
      }
      VF_CHECK(vals == want || empty_ok, "wrong-values", id << ": values " << join_show(vals) << "expected " << join_show(want));
    }
  }
  // the same relative name means another file after the working directory has changed
  if (s.chance(12)) {
    g_case.tag("relative_name_after_chdir");
    static const char *RN[3] = {"f2.conf", "rel/f2.conf", "./rel/f2.conf"};
    const char *rn = RN[s.below(3)];
    struct Back {
      ~Back() {
        if (chdir(g_scr.dir.c_str()) != 0) perror("chdir");
      }
    } back;
    for (int round = 0; round < 2; round++) {
      std::string cwd = g_scr.dir + (round == 0 ? "/cwdA" : "/cwdB");
      mkdir_p(cwd + "/rel");
      std::string body = std::string(round == 0 ? "" : "# other file\n\n") + "where=" + (round == 0 ? "A" : "B") + "\n";
      std::string rel = rn;
      if (rel.compare(0, 2, "./") == 0) rel = rel.substr(2);
      write_file(cwd + "/" + rel, body);
      VF_CHECK(chdir(cwd.c_str()) == 0, "harness", "chdir");
      econf_file *k2 = nullptr;
      econf_err e2 = econf_readFile(&k2, rn, "=", "#");
      VF_CHECK(e2 == ECONF_SUCCESS && k2, "read-failed", "econf_readFile('" << rn << "') in " << cwd << " rc=" << e2);
      char *p2 = econf_getPath(k2);
      std::string got = p2 ? p2 : "<NULL>";
      free(p2);
      econf_ext_value *ev = nullptr;
      econf_err e3 = econf_getExtValue(k2, nullptr, "where", &ev);
      std::string evfile = e3 == ECONF_SUCCESS && ev && ev->file ? ev->file : "<none>";
      uint64_t evline = e3 == ECONF_SUCCESS && ev ? ev->line_number : 0;
      std::string evval = e3 == ECONF_SUCCESS && ev && ev->values && ev->values[0] ? ev->values[0] : "<none>";
      if (ev) econf_freeExtValue(ev);
      econf_freeFile(k2);
      std::string want = cwd + "/" + rel;
      VF_CHECK(got == want, "wrong-path", "econf_getPath = '" << got << "' for '" << rn << "' read in " << cwd << ", expected '" << want << "'");
      VF_CHECK(evfile == want && evline == (round == 0 ? 1u : 3u) && evval == (round == 0 ? "A" : "B"), "wrong-path",
               "'" << rn << "' read in " << cwd << ": extended value reports file '" << evfile << "' line " << evline << " value '" << evval << "'");
    }
  }
  // a layered read that merges several files has no path either, whatever the later files contain
  if (s.chance(15)) {
    g_case.tag("layered_merge_result");
    std::string l0 = g_scr.dir + "/L0", l1 = g_scr.dir + "/L1";
    mkdir_p(l0);
    mkdir_p(l1 + "/vfp.conf.d");
    write_file(l0 + "/vfp.conf", f.text());
    size_t later = s.below(4);  // later file: empty, comments only, a key-less section, one key
    const std::string cc(1, f.C.empty() ? '#' : f.C[0]);
    const std::string LT[4] = {"", cc + " nothing\n" + cc + "k=v\n", "[empty]\n", f.cls == DC_BLANK ? "[zz]\nlater 1\n" : "[zz]\nlater=1\n"};
    write_file(l1 + "/vfp.conf.d/10-later.conf", LT[later]);
    if (later < 3) g_case.tag("later_file_without_entries");
    econf_file *lk = nullptr;
#pragma GCC diagnostic push
#pragma GCC diagnostic ignored "-Wdeprecated-declarations"
    econf_err le = econf_readDirs(&lk, l0.c_str(), l1.c_str(), "vfp", "conf", f.D.c_str(), f.C.c_str());
#pragma GCC diagnostic pop
    VF_CHECK(le == ECONF_SUCCESS && lk, "read-failed", "econf_readDirs of the same file plus a drop-in rc=" << le);
    char *lp = econf_getPath(lk);
    std::string lps = lp ? lp : "<NULL>";
    free(lp);
    econf_freeFile(lk);
    unlink((l1 + "/vfp.conf.d/10-later.conf").c_str());
    VF_CHECK(lps == "", "wrong-path", "econf_getPath(result of a layered read of two files, later file kind " << later << ") = '" << lps << "' expected ''");
  }
  // a merge result has no path
  if (s.chance(20)) {
    econf_file *m = nullptr;
    e = econf_mergeFiles(&m, kf, kf);
    if (e == ECONF_SUCCESS && m) {
      char *mp = econf_getPath(m);
      std::string mps = mp ? mp : "<NULL>";
      free(mp);
      econf_freeFile(m);
      VF_CHECK(mps == "", "wrong-path", "econf_getPath(merge result) = '" << mps << "' expected ''");
    }
  }
}

int main(int argc, char **argv) {
  Harness h;
  h.property_id = "C17";
  h.run = run;
  h.base = 24;
  h.per_size = 20;
  h.setup = [] {
    g_scr.init();
    mkdir((g_scr.dir + "/sub").c_str(), 0755);
    if (chdir(g_scr.dir.c_str()) != 0) perror("chdir");
  };
  h.teardown = [] {
    if (chdir("/") != 0) perror("chdir");
    g_scr.cleanup();
  };
  return engine_main(argc, argv, h);
}
