// C08 - typed values survive set/get and set/write/read/get exactly
//
// rapidcheck part: batches of random 64-bit patterns (int64/uint64/double) and
// objects of typed keys written to a file and read back.
// --mode exh <type> <shard> <nshards> <stride>: in-memory set->get for every
//   stride-th 32-bit pattern (stride 1 = exhaustive) of int32 | uint32 | float.
// --mode bounds: boundary families of all types incl. file round trip, all
//   case variants of the boolean words.
#include <cerrno>
#include <cinttypes>
#include <cmath>
#include <cstring>

#include "common/engine.hpp"
#include "common/cshim.h"
#include "common/fsutil.hpp"
#include "common/model.hpp"

using namespace vf;
static Scratch g_scr;

static inline uint64_t dbits(double d) {
  uint64_t u;
  memcpy(&u, &d, 8);
  return u;
}
static inline uint32_t fbits(float f) {
  uint32_t u;
  memcpy(&u, &f, 4);
  return u;
}
static inline bool same_double(double a, double b) { return (std::isnan(a) && std::isnan(b)) || dbits(a) == dbits(b); }
static inline bool same_float(float a, float b) { return (std::isnan(a) && std::isnan(b)) || fbits(a) == fbits(b); }

struct Failure {
  std::string msg;
};

// in-memory round trips on one object/key
static void rt_i32(econf_file *kf, int32_t v) {
  int32_t r = ~v;
  econf_err e = econf_setIntValue(kf, "T", "v", v);
  if (e == ECONF_SUCCESS) e = econf_getIntValue(kf, "T", "v", &r);
  if (e != ECONF_SUCCESS || r != v) VF_FAIL("int32-roundtrip", "int32 " << v << " -> rc=" << e << " value " << r);
}
static void rt_u32(econf_file *kf, uint32_t v) {
  uint32_t r = ~v;
  econf_err e = econf_setUIntValue(kf, "T", "v", v);
  if (e == ECONF_SUCCESS) e = econf_getUIntValue(kf, "T", "v", &r);
  if (e != ECONF_SUCCESS || r != v) VF_FAIL("uint32-roundtrip", "uint32 " << v << " -> rc=" << e << " value " << r);
}
static void rt_f32(econf_file *kf, uint32_t bits) {
  float v, r = 0;
  memcpy(&v, &bits, 4);
  econf_err e = econf_setFloatValue(kf, "T", "v", v);
  if (e == ECONF_SUCCESS) e = econf_getFloatValue(kf, "T", "v", &r);
  if (e != ECONF_SUCCESS || !same_float(r, v)) {
    char b[64];
    snprintf(b, sizeof b, "%.9g", (double)v);
    VF_FAIL("float-roundtrip", "float bits 0x" << std::hex << bits << std::dec << " (" << b << ") -> rc=" << e << " bits 0x" << std::hex << fbits(r));
  }
}
static void rt_i64(econf_file *kf, int64_t v) {
  int64_t r = ~v;
  econf_err e = econf_setInt64Value(kf, "T", "v", v);
  if (e == ECONF_SUCCESS) e = econf_getInt64Value(kf, "T", "v", &r);
  if (e != ECONF_SUCCESS || r != v) VF_FAIL("int64-roundtrip", "int64 " << v << " -> rc=" << e << " value " << r);
}
static void rt_u64(econf_file *kf, uint64_t v) {
  uint64_t r = ~v;
  econf_err e = econf_setUInt64Value(kf, "T", "v", v);
  if (e == ECONF_SUCCESS) e = econf_getUInt64Value(kf, "T", "v", &r);
  if (e != ECONF_SUCCESS || r != v) VF_FAIL("uint64-roundtrip", "uint64 " << v << " -> rc=" << e << " value " << r);
}
static void rt_f64(econf_file *kf, uint64_t bits) {
  double v, r = 0;
  memcpy(&v, &bits, 8);
  econf_err e = econf_setDoubleValue(kf, "T", "v", v);
  if (e == ECONF_SUCCESS) e = econf_getDoubleValue(kf, "T", "v", &r);
  if (e != ECONF_SUCCESS || !same_double(r, v)) {
    char b[64];
    snprintf(b, sizeof b, "%.17g", v);
    VF_FAIL("double-roundtrip", "double bits 0x" << std::hex << bits << std::dec << " (" << b << ") -> rc=" << e << " bits 0x" << std::hex << dbits(r));
  }
}

// ------------------------------------------------------------------ boundary families (DESIGN 5.7)
static std::vector<uint64_t> family64() {
  std::vector<uint64_t> v = {0, 1, (uint64_t)-1, (uint64_t)-2, 2};
  for (int k = 0; k < 64; k++) {
    uint64_t p = 1ull << k;
    v.push_back(p);
    v.push_back(p - 1);
    v.push_back(p + 1);
    v.push_back(~p);
    v.push_back(0 - p);
  }
  uint64_t t = 1;
  for (int k = 0; k < 20; k++) {
    v.push_back(t);
    v.push_back(t - 1);
    v.push_back(t + 1);
    v.push_back(0 - t);
    v.push_back(0 - t + 1);
    v.push_back(0 - t - 1);
    if (k < 19) t *= 10;
  }
  for (int64_t d = -2; d <= 2; d++) {
    v.push_back((uint64_t)(INT64_MAX) + (uint64_t)d);
    v.push_back((uint64_t)(INT64_MIN) + (uint64_t)d);
    v.push_back((uint64_t)(INT32_MAX) + (uint64_t)d);
    v.push_back((uint64_t)(int64_t)INT32_MIN + (uint64_t)d);
    v.push_back((uint64_t)UINT32_MAX + (uint64_t)d);
  }
  return v;
}
static std::vector<uint64_t> family_double_bits() {
  std::vector<uint64_t> v;
  const double specials[] = {0.0, -0.0, 1.0, -1.0, 0.1, 1.0 / 3, 2.2250738585072014e-308, 4.9406564584124654e-324,
                             1.7976931348623157e308, 2.2250738585072009e-308, INFINITY, -INFINITY, NAN, 1e22, 1e23, 5e-324,
                             9007199254740992.0, 9007199254740993.0, 123456789012345678.0, 0.30000000000000004};
  for (double d : specials) v.push_back(dbits(d));
  for (int k = 0; k < 64; k++) v.push_back(1ull << k);
  for (int e = 0; e < 2047; e += 13) {
    v.push_back((uint64_t)e << 52);
    v.push_back(((uint64_t)e << 52) | 1);
    v.push_back(((uint64_t)e << 52) | 0xFFFFFFFFFFFFFull);
    v.push_back(((uint64_t)e << 52) | (1ull << 63) | 0x8000000000000ull);
  }
  for (uint64_t m = 1; m < 40; m++) v.push_back(m);  // smallest subnormals
  return v;
}

static void bool_variants(econf_file *kf, uint64_t &count) {
  static const char *words[6] = {"yes", "no", "true", "false", "1", "0"};
  static const bool truth[6] = {true, false, true, false, true, false};
  for (int w = 0; w < 6; w++) {
    size_t len = strlen(words[w]);
    for (unsigned mask = 0; mask < (1u << len); mask++) {
      std::string t = words[w];
      for (size_t i = 0; i < len; i++)
        if (mask & (1u << i)) t[i] = (char)toupper(t[i]);
      bool r = !truth[w];
      econf_err e = econf_setBoolValue(kf, "T", "b", t.c_str());
      if (e == ECONF_SUCCESS) e = econf_getBoolValue(kf, "T", "b", &r);
      if (e != ECONF_SUCCESS || r != truth[w]) VF_FAIL("bool-roundtrip", "boolean spelling '" << t << "' -> rc=" << e << " value " << r);
      count++;
      if (w >= 4) break;
    }
  }
}

// typed keys -> file -> typed getters
struct TypedKey {
  int type;  // 0 i32 1 u32 2 f32 3 i64 4 u64 5 f64 6 bool
  uint64_t bits;
  bool refused_after = false;  // a boolean set with a word that is not accepted follows: it fails and stores nothing
};
static void file_roundtrip(const std::vector<TypedKey> &keys) {
  econf_file *kf = nullptr;
  econf_err e = econf_newKeyFile(&kf, '=', '#');
  VF_CHECK(e == ECONF_SUCCESS, "harness", "newKeyFile");
  static const char *bw[4] = {"yes", "No", "TRUE", "false"};
  for (size_t i = 0; i < keys.size(); i++) {
    std::string k = "k" + std::to_string(i);
    // (the setters are given the bracketed spelling of the section for some keys, the getters below the plain one)
    // (the section names "ab" and "bA" are different names with the same djb2 hash)
    // (group-less: NULL, "" and "[]" are the same for a setter)
    static const char *const NOSEC[3] = {nullptr, "", "[]"};
    const char *sec = (i % 3 == 0) ? NOSEC[(i / 3) % 3] : (i % 3 == 1 ? (i % 4 == 1 ? "[ab]" : "ab") : (i % 4 == 2 ? "[bA]" : "bA"));
    uint64_t b = keys[i].bits;
    // every other key goes through the header's generic econf_setValue() macro (C only: through the shim)
    if (i % 2 == 1 && keys[i].type < 6) {
      switch (keys[i].type) {
        case 0: e = (econf_err)vf_generic_set_i32(kf, sec, k.c_str(), (int32_t)b); break;
        case 1: e = (econf_err)vf_generic_set_u32(kf, sec, k.c_str(), (uint32_t)b); break;
        case 2: { float f; uint32_t u = (uint32_t)b; memcpy(&f, &u, 4); e = (econf_err)vf_generic_set_f32(kf, sec, k.c_str(), f); break; }
        case 3: e = (econf_err)vf_generic_set_i64(kf, sec, k.c_str(), (int64_t)b); break;
        case 4: e = (econf_err)vf_generic_set_u64(kf, sec, k.c_str(), b); break;
        default: { double d; memcpy(&d, &b, 8); e = (econf_err)vf_generic_set_f64(kf, sec, k.c_str(), d); break; }
      }
    } else
    switch (keys[i].type) {
      case 0: e = econf_setIntValue(kf, sec, k.c_str(), (int32_t)b); break;
      case 1: e = econf_setUIntValue(kf, sec, k.c_str(), (uint32_t)b); break;
      case 2: { float f; uint32_t u = (uint32_t)b; memcpy(&f, &u, 4); e = econf_setFloatValue(kf, sec, k.c_str(), f); break; }
      case 3: e = econf_setInt64Value(kf, sec, k.c_str(), (int64_t)b); break;
      case 4: e = econf_setUInt64Value(kf, sec, k.c_str(), b); break;
      case 5: { double d; memcpy(&d, &b, 8); e = econf_setDoubleValue(kf, sec, k.c_str(), d); break; }
      default: e = econf_setBoolValue(kf, sec, k.c_str(), bw[b % 4]); break;
    }
    if (e != ECONF_SUCCESS) {
      econf_freeFile(kf);
      VF_FAIL("set-failed", "typed setter rc=" << e);
    }
    if (keys[i].refused_after) {
      static const char *junk[4] = {"maybe", "2", "on", "tru"};
      econf_err e2 = econf_setBoolValue(kf, sec, k.c_str(), junk[b % 4]);
      if (e2 == ECONF_SUCCESS) {
        econf_freeFile(kf);
        VF_FAIL("junk-accepted", "econf_setBoolValue('" << junk[b % 4] << "') succeeded");
      }
    }
  }
  e = econf_writeFile(kf, g_scr.dir.c_str(), "typed.conf");
  econf_freeFile(kf);
  VF_CHECK(e == ECONF_SUCCESS, "write-failed", "rc=" << e);
  econf_file *rd = nullptr;
  e = econf_readFile(&rd, (g_scr.dir + "/typed.conf").c_str(), "=", "#");
  VF_CHECK(e == ECONF_SUCCESS && rd, "reread-failed", "rc=" << e);
  struct G {
    econf_file *k;
    ~G() { econf_freeFile(k); }
  } g{rd};
  for (size_t i = 0; i < keys.size(); i++) {
    std::string k = "k" + std::to_string(i);
    const char *sec = (i % 3 == 0) ? nullptr : (i % 3 == 1 ? "ab" : "bA");
    uint64_t b = keys[i].bits;
    std::ostringstream id;
    id << "key " << k << " type " << keys[i].type << " bits 0x" << std::hex << b << std::dec << " after write/read: ";
    switch (keys[i].type) {
      case 0: { int32_t r = 0; e = econf_getIntValue(rd, sec, k.c_str(), &r); VF_CHECK(e == ECONF_SUCCESS && r == (int32_t)b, "file-roundtrip", id.str() << "rc=" << e << " value " << r); break; }
      case 1: { uint32_t r = 0; e = econf_getUIntValue(rd, sec, k.c_str(), &r); VF_CHECK(e == ECONF_SUCCESS && r == (uint32_t)b, "file-roundtrip", id.str() << "rc=" << e << " value " << r); break; }
      case 2: { float r = 0, f; uint32_t u = (uint32_t)b; memcpy(&f, &u, 4); e = econf_getFloatValue(rd, sec, k.c_str(), &r); VF_CHECK(e == ECONF_SUCCESS && same_float(r, f), "file-roundtrip", id.str() << "rc=" << e << " bits 0x" << std::hex << fbits(r)); break; }
      case 3: { int64_t r = 0; e = econf_getInt64Value(rd, sec, k.c_str(), &r); VF_CHECK(e == ECONF_SUCCESS && r == (int64_t)b, "file-roundtrip", id.str() << "rc=" << e << " value " << r); break; }
      case 4: { uint64_t r = 0; e = econf_getUInt64Value(rd, sec, k.c_str(), &r); VF_CHECK(e == ECONF_SUCCESS && r == b, "file-roundtrip", id.str() << "rc=" << e << " value " << r); break; }
      case 5: { double r = 0, d; memcpy(&d, &b, 8); e = econf_getDoubleValue(rd, sec, k.c_str(), &r); VF_CHECK(e == ECONF_SUCCESS && same_double(r, d), "file-roundtrip", id.str() << "rc=" << e << " bits 0x" << std::hex << dbits(r)); break; }
      default: { bool r = false; e = econf_getBoolValue(rd, sec, k.c_str(), &r); bool want = (b % 4) == 0 || (b % 4) == 2; VF_CHECK(e == ECONF_SUCCESS && r == want, "file-roundtrip", id.str() << "rc=" << e << " value " << r); break; }
    }
  }
}

// ------------------------------------------------------------------ modes
static int mode_exh(const std::string &type, uint64_t shard, uint64_t nshards, uint64_t stride, uint64_t offset) {
  econf_file *kf = nullptr;
  econf_newKeyFile(&kf, '=', '#');
  uint64_t n = 0;
  uint64_t total = (1ull << 32);
  uint64_t lo = total / nshards * shard, hi = shard + 1 == nshards ? total : total / nshards * (shard + 1);
  try {
    for (uint64_t x = lo + (offset % stride); x < hi; x += stride) {
      uint32_t u = (uint32_t)x;
      if (type == "int32")
        rt_i32(kf, (int32_t)u);
      else if (type == "uint32")
        rt_u32(kf, u);
      else
        rt_f32(kf, u);
      n++;
    }
  } catch (const Fail &f) {
    printf("FAIL %s: %s\n", f.symptom.c_str(), f.detail.c_str());
    write_mode_case("exh " + type + " " + std::to_string(shard) + " " + std::to_string(nshards) + " " + std::to_string(stride) + " " + std::to_string(offset), f.symptom, f.detail);
    econf_freeFile(kf);
    return 10;
  }
  econf_freeFile(kf);
  g_case.clear();
  g_case.evals = n;
  g_case.nontrivial = true;
  g_case.shape_hash = fnv(type, shard * 131 + stride);
  g_case.desc = type + " in-memory set->get, patterns [" + std::to_string(lo) + "," + std::to_string(hi) + ") stride " + std::to_string(stride);
  g_case.tag("exh_" + type);
  stats_commit_case();
  stats_add("values_" + type, n);
  char b[300];
  snprintf(b, sizeof b, "{\"space\":\"%s bit patterns [%" PRIu64 ",%" PRIu64 ") stride %" PRIu64 ", in-memory set->get\",\"values\":%" PRIu64 ",\"complete\":%s}",
           type.c_str(), lo, hi, stride, n, stride == 1 ? "true" : "false");
  stats_note("exhaustive", b);
  return 0;
}

static int mode_bounds() {
  econf_file *kf = nullptr;
  econf_newKeyFile(&kf, '=', '#');
  uint64_t n = 0;
  try {
    std::vector<uint64_t> f64 = family64(), fd = family_double_bits();
    std::vector<TypedKey> keys;
    for (uint64_t v : f64) {
      rt_i64(kf, (int64_t)v);
      rt_u64(kf, v);
      rt_i32(kf, (int32_t)v);
      rt_u32(kf, (uint32_t)v);
      rt_f32(kf, (uint32_t)v);
      rt_f32(kf, (uint32_t)(v >> 32));
      n += 6;
      keys.push_back({3, v});
      keys.push_back({4, v});
      keys.push_back({0, v});
      keys.push_back({1, v});
      keys.push_back({2, v & 0xffffffffu});
    }
    for (uint64_t b : fd) {
      rt_f64(kf, b);
      n++;
      keys.push_back({5, b});
    }
    for (int i = 0; i < 8; i++) keys.push_back({6, (uint64_t)i});
    bool_variants(kf, n);
    // file round trip in chunks of 500 keys
    for (size_t i = 0; i < keys.size(); i += 500) {
      std::vector<TypedKey> chunk(keys.begin() + (long)i, keys.begin() + (long)std::min(keys.size(), i + 500));
      file_roundtrip(chunk);
      n += chunk.size();
    }
  } catch (const Fail &f) {
    printf("FAIL %s: %s\n", f.symptom.c_str(), f.detail.c_str());
    write_mode_case("bounds", f.symptom, f.detail);
    econf_freeFile(kf);
    return 10;
  }
  econf_freeFile(kf);
  g_case.clear();
  g_case.evals = n;
  g_case.nontrivial = true;
  g_case.shape_hash = 4711;
  g_case.desc = "boundary families: type limits +-2, 2^k, 2^k+-1, 10^k+-1, single-bit patterns, subnormals, +-0, inf, NaN; all case variants of yes/no/true/false, 1, 0; in memory and through a written file";
  g_case.tag("boundary_families");
  stats_commit_case();
  return 0;
}

// ------------------------------------------------------------------ rapidcheck part
static void run(Src &s) {
  size_t w = s.weighted({50, 50});
  if (w == 0) {
    // batch of random 64-bit patterns, in memory
    econf_file *kf = nullptr;
    econf_newKeyFile(&kf, '=', '#');
    struct G {
      econf_file *k;
      ~G() { econf_freeFile(k); }
    } g{kf};
    int n = 16 + (int)s.below(48);
    uint64_t h = 1;
    bool subn = false;
    for (int i = 0; i < n; i++) {
      uint64_t b = s.raw64();
      if (s.chance(50)) errno = s.chance(50) ? ERANGE : ENOENT;  // whatever an earlier call left behind must not matter
      // spread exponents: sometimes clear high bits
      size_t sh = s.below(8);
      if (sh == 1) b >>= s.below(63);
      if (sh == 2) b &= 0x800FFFFFFFFFFFFFull;  // subnormal doubles
      if ((b & 0x7FF0000000000000ull) == 0 && (b & 0xFFFFFFFFFFFFFull)) subn = true;
      if (s.chance(6)) {
        // a refused boolean set on the key the round trips use leaves what is stored there alone
        econf_err e0 = econf_setInt64Value(kf, "T", "v", (int64_t)b);
        econf_err e1 = econf_setBoolValue(kf, "T", "v", "maybe");
        int64_t back = 0;
        econf_err e2 = econf_getInt64Value(kf, "T", "v", &back);
        VF_CHECK(e0 == ECONF_SUCCESS && e1 != ECONF_SUCCESS && e2 == ECONF_SUCCESS && back == (int64_t)b, "refused-set-had-effect",
                 "set " << (int64_t)b << ", refused boolean set (rc=" << e1 << "), get: rc=" << e2 << " value " << back);
      }
      if (s.chance(6)) {
        // the two spellings of a section name are the same section for every typed setter and getter
        int64_t b1 = 0;
        uint64_t b2 = 0;
        econf_err e0 = econf_setInt64Value(kf, "[T]", "w", (int64_t)b), e1 = econf_getInt64Value(kf, "T", "w", &b1);
        econf_err e2 = econf_setUInt64Value(kf, "T", "w2", b), e3 = econf_getUInt64Value(kf, "[T]", "w2", &b2);
        VF_CHECK(e0 == ECONF_SUCCESS && e1 == ECONF_SUCCESS && b1 == (int64_t)b && e2 == ECONF_SUCCESS && e3 == ECONF_SUCCESS && b2 == b,
                 "section-spelling", "set through '[T]' / get through 'T': rc=" << e0 << "," << e1 << " value " << b1 << "; set 'T' / get '[T]': rc=" << e2 << "," << e3 << " value " << b2 << " (stored " << b << ")");
      }
      rt_i64(kf, (int64_t)b);
      rt_u64(kf, b);
      rt_f64(kf, b);
      rt_f32(kf, (uint32_t)b);
      rt_i32(kf, (int32_t)(b >> 32));
      rt_u32(kf, (uint32_t)(b >> 16));
      h = fnv_u64(b, h);
    }
    g_case.evals = (uint64_t)n * 6;
    g_case.nontrivial = true;
    g_case.shape_hash = h;
    g_case.tag("random_batch_in_memory");
    if (subn) g_case.tag("subnormal_double");
    g_case.desc = "batch of " + std::to_string(n) + " random 64-bit patterns through all six numeric set/get pairs";
  } else {
    std::vector<TypedKey> keys;
    int n = 20 + (int)s.below(200);
    uint64_t h = 2;
    for (int i = 0; i < n; i++) {
      TypedKey k;
      k.type = (int)s.below(7);
      k.bits = s.raw64();
      if (s.chance(25)) k.bits >>= s.below(63);
      if (k.type == 2) k.bits &= 0xffffffffu;
      k.refused_after = s.chance(8);
      keys.push_back(k);
      h = fnv_u64(k.bits ^ (uint64_t)k.type, h);
    }
    g_case.evals = (uint64_t)n;
    g_case.nontrivial = true;
    g_case.shape_hash = h;
    g_case.tag("file_roundtrip");
    g_case.desc = "object of " + std::to_string(n) + " typed keys written and read back";
    file_roundtrip(keys);
  }
}

int main(int argc, char **argv) {
  Harness h;
  h.property_id = "C08";
  h.run = run;
  h.base = 64;
  h.per_size = 12;
  h.setup = [] { g_scr.init(); };
  h.teardown = [] { g_scr.cleanup(); };
  h.extra = [](const std::string &mode, int argc, char **argv) -> int {
    if (mode == "exh" && argc >= 4) {
      uint64_t seed = 1;
      if (getenv("VERIF_SEED")) seed = strtoull(getenv("VERIF_SEED"), nullptr, 10);
      uint64_t offset = argc >= 5 ? strtoull(argv[4], nullptr, 10) : seed * 7919;
      return mode_exh(argv[0], strtoull(argv[1], nullptr, 10), strtoull(argv[2], nullptr, 10), strtoull(argv[3], nullptr, 10), offset);
    }
    if (mode == "bounds") return mode_bounds();
    return -1;
  };
  return engine_main(argc, argv, h);
}
