// C07 - a written configuration reads back identically
#include <set>

#include "common/engine.hpp"
#include "common/fsutil.hpp"
#include "common/gen_hist.hpp"
#include "common/gen_text.hpp"
#include "common/model.hpp"

using namespace vf;
static Scratch g_scr;

struct ExtInfo {
  std::string cb, ca;
};
struct Snap {
  Observed ob;
  std::map<std::pair<std::string, std::string>, ExtInfo> ext;
};

static Snap snapshot(econf_file *kf) {
  Snap sn;
  sn.ob = observe(kf);
  for (auto &sk : sn.ob.keys)
    for (auto &k : sk.second) {
      auto id = std::make_pair(sk.first, k);
      if (sn.ext.count(id)) continue;
      econf_ext_value *ev = nullptr;
      if (econf_getExtValue(kf, sk.first.empty() ? nullptr : sk.first.c_str(), k.c_str(), &ev) == ECONF_SUCCESS && ev) {
        ExtInfo x;
        x.cb = ev->comment_before_key ? ev->comment_before_key : "";
        x.ca = ev->comment_after_value ? ev->comment_after_value : "";
        sn.ext[id] = x;
        econf_freeExtValue(ev);
      }
    }
  return sn;
}

static std::vector<std::string> tlines(const std::string &s) {
  std::vector<std::string> r;
  size_t p = 0;
  for (;;) {
    size_t q = s.find('\n', p);
    r.push_back(trim_blanks(s.substr(p, q == std::string::npos ? std::string::npos : q - p)));
    if (q == std::string::npos) break;
    p = q + 1;
  }
  return r;
}

// DESIGN 5.4 equality; returns "" or a description
static std::string roundtrip_diff(const Snap &a, const Snap &b) {
  if (!a.ob.error.empty()) return "before: " + a.ob.error;
  if (!b.ob.error.empty()) return "after: " + b.ob.error;
  std::map<std::string, std::vector<std::string>> ka, kb;
  for (auto &sk : a.ob.keys)
    if (!sk.second.empty()) ka[sk.first] = sk.second;
  for (auto &sk : b.ob.keys)
    if (!sk.second.empty()) kb[sk.first] = sk.second;
  for (auto &x : ka)
    if (!kb.count(x.first)) return "key-bearing section [" + esc(x.first) + "] lost";
  for (auto &x : kb)
    if (!ka.count(x.first)) return "key-bearing section [" + esc(x.first) + "] appeared";
  for (auto &x : ka)
    if (x.second != kb[x.first]) {
      std::string r = "keys of [" + esc(x.first) + "] differ: before";
      for (auto &k : x.second) r += " " + esc(k);
      r += " ; after";
      for (auto &k : kb[x.first]) r += " " + esc(k);
      return r;
    }
  for (auto &kv : a.ob.vals) {
    auto it = b.ob.vals.find(kv.first);
    if (it == b.ob.vals.end()) return "value of " + esc(kv.first.second) + " missing after";
    std::string va = kv.second ? *kv.second : "", vb = it->second ? *it->second : "";
    bool multi = va.find('\n') != std::string::npos;
    if (!multi) {
      if (va != vb) return "value of [" + esc(kv.first.first) + "] " + esc(kv.first.second) + ": before '" + esc(va) + "' after '" + esc(vb) + "'";
      auto ea = a.ext.find(kv.first), eb = b.ext.find(kv.first);
      if (ea != a.ext.end() && eb != b.ext.end()) {
        if (ea->second.cb != eb->second.cb)
          return "comment before " + esc(kv.first.second) + ": before '" + esc(ea->second.cb) + "' after '" + esc(eb->second.cb) + "'";
        if (ea->second.ca != eb->second.ca)
          return "comment after " + esc(kv.first.second) + ": before '" + esc(ea->second.ca) + "' after '" + esc(eb->second.ca) + "'";
      }
    } else if (tlines(va) != tlines(vb))
      return "multi-line value of [" + esc(kv.first.first) + "] " + esc(kv.first.second) + ": before '" + esc(va) + "' after '" + esc(vb) + "'";
  }
  return "";
}

static void run(Src &s) {
  static const char DCH[3] = {'=', ':', ' '};
  static const char CCH[2] = {'#', ';'};
  char d = DCH[s.below(3)], c = CCH[s.below(2)];
  econf_file *kf = nullptr;
  std::string desc;
  bool parsed = s.chance(40);
  bool reopened = false, groupless_after_section = false, overwritten = false, read_quoted = false, comments = false, multiline = false;
  if (parsed) {
    // (b) a parsed conventional file restricted to DESIGN 5.4
    char d0 = s.chance(70) ? d : DCH[s.below(3)], c0 = s.chance(70) ? c : CCH[s.below(2)];
    GOpts o;
    o.custom_D = std::string(1, d0);
    o.custom_C = std::string(1, c0);
    o.verbatim_quote = false;
    o.multiline_no_trail = true;
    o.header_trail = false;
    o.max_lines = 20;
    o.extra_forbidden_key = std::string(1, d) + std::string(1, c) + std::string(1, d0) + std::string(1, c0);
    o.extra_forbidden_value = std::string(1, c) + std::string(1, c0);
    o.extra_forbidden_cont = std::string(1, d) + std::string(1, d0);
    o.cont_single_token = d == ' ' || d0 == ' ';
    GFile f = gen_file(s, o);
    // comment texts must be free of the final comment tag too; trailing comments free of '"' (the grammar has that)
    bool ok = true;
    for (auto &l : f.lines)
      if ((l.kind == L_COMMENT || l.has_trail) && l.ctext.find(c) != std::string::npos) ok = false;
    // section names free of the final comment tag
    for (auto &sec : f.declared)
      if (sec.find(c) != std::string::npos) ok = false;
    if (!ok) {
      g_case.desc = "discarded: comment text contains the final comment tag";
      return;
    }
    std::string path = g_scr.dir + "/src.conf";
    write_file(path, f.text());
    // the object may also come out of the layered-read code (one file, no drop-ins)
    int via = (int)s.weighted({65, 0, 15, 10, 10});
    if (via) g_case.tag("object_from_layered_read");
    econf_err e = read_via(via, g_scr.dir, "src", o.custom_D, o.custom_C, &kf);
    VF_CHECK(e == ECONF_SUCCESS && kf, "harness", "reading the generated source file (" << READ_VIA_NAME[via] << ") failed rc=" << e << " " << describe(f));
    econf_set_delimiter_tag(kf, d);
    econf_set_comment_tag(kf, c);
    desc = "parsed " + describe(f);
    for (auto &l : f.lines) {
      read_quoted = read_quoted || l.quoted;
      comments = comments || l.kind == L_COMMENT || l.has_trail;
      multiline = multiline || l.kind == L_CONT;
    }
    tag_file_classes(f);
    g_case.shape_hash = f.skeleton();
  } else {
    // (a) a setter history on one of the three constructors
    size_t ctor = s.below(3);
    econf_err e;
    if (ctor == 0)
      e = econf_newKeyFile(&kf, d, c);
    else if (ctor == 1)
      e = econf_newIniFile(&kf);
    else
      e = econf_newKeyFile_with_options(&kf, "");
    VF_CHECK(e == ECONF_SUCCESS && kf, "harness", "constructor failed");
    if (ctor != 0 || s.chance(30)) {
      econf_set_delimiter_tag(kf, d);
      econf_set_comment_tag(kf, c);
    }
    desc = "setters ctor=" + std::to_string(ctor) + ":";
    std::vector<std::string> closed;
    std::string cur = "\x01";
    std::set<std::pair<std::string, std::string>> seen;
    bool seen_section = false;
    uint64_t h = ctor;
    int n = 0;
    for (;;) {
      auto sp = s.span();
      if (!(n < 40 && s.chance(90))) break;
      n++;
      const SecArg &sa = SEC_ARGS[s.below(N_SEC_ARGS)];
      const std::string &key = hist_keys()[s.below((uint32_t)hist_keys().size())];
      std::string val = gen_safe_value(s, d, c);
      econf_err ee;
      size_t ty = s.weighted({70, 10, 10, 10});
      if (ty == 1) {
        int64_t iv = (int64_t)s.raw64();
        ee = econf_setInt64Value(kf, sa.arg, key.c_str(), iv);
        val = std::to_string(iv);
      } else if (ty == 2) {
        ee = econf_setBoolValue(kf, sa.arg, key.c_str(), s.chance(50) ? "yes" : "0");
        val = "<bool>";
      } else if (ty == 3) {
        double dv = (double)(int32_t)s.raw() / 7.0;
        ee = econf_setDoubleValue(kf, sa.arg, key.c_str(), dv);
        val = "<double>";
      } else
        ee = econf_setStringValue(kf, sa.arg, key.c_str(), val.c_str());
      if (ee != ECONF_SUCCESS) {
        econf_freeFile(kf);
        VF_FAIL("setter-failed", "setter rc=" << ee);
      }
      std::string sec = sa.norm;
      desc += " ([" + sec + "]" + key + "=" + esc(val) + ")";
      auto id = std::make_pair(sec, key);
      if (seen.count(id))
        overwritten = true;
      else {
        if (sec != cur) {
          for (auto &x : closed)
            if (x == sec) reopened = true;
          if (cur != "\x01") closed.push_back(cur);
          cur = sec;
        }
        if (sec.empty() && seen_section) groupless_after_section = true;
        if (!sec.empty()) seen_section = true;
        seen.insert(id);
      }
      if (val.find('\n') != std::string::npos) multiline = true;
      h = fnv(sec + "." + key, h);
    }
    g_case.shape_hash = h;
  }
  g_case.desc = std::string("d='") + d + "' c='" + c + "' " + desc;
  g_case.tag(std::string("d_") + (d == ' ' ? "space" : d == '=' ? "eq" : "colon"));
  g_case.tag(std::string("c_") + (c == '#' ? "hash" : "semicolon"));
  g_case.tag(parsed ? "parsed_object" : "setter_object");
  if (reopened) g_case.tag("reopened_section_by_setters");
  if (groupless_after_section) g_case.tag("groupless_after_section");
  if (overwritten) g_case.tag("overwritten_key");
  if (read_quoted) g_case.tag("read_quoted");
  if (comments) g_case.tag("comments");
  if (multiline) g_case.tag("multiline");
  g_case.shape_hash = fnv_u64((uint64_t)d * 256 + (uint64_t)c, g_case.shape_hash);

  Snap before = snapshot(kf);
  {
    std::set<std::string> secs;
    for (auto &sk : before.ob.keys)
      if (!sk.second.empty()) secs.insert(sk.first);
    g_case.nontrivial = secs.size() >= 2 || read_quoted || comments || multiline;
  }
  // an object can be written more than once: the file that is judged is then the second one
  if (s.chance(30)) {
    econf_err e1 = econf_writeFile(kf, g_scr.dir.c_str(), "first.conf");
    VF_CHECK(e1 == ECONF_SUCCESS, "write-failed", "first econf_writeFile rc=" << e1);
    g_case.tag("written_twice");
  }
  econf_err e = econf_writeFile(kf, g_scr.dir.c_str(), "out.conf");
  econf_freeFile(kf);
  VF_CHECK(e == ECONF_SUCCESS, "write-failed", "econf_writeFile rc=" << e);
  std::string written;
  read_file_bytes(g_scr.dir + "/out.conf", written);
  econf_file *back = nullptr;
  std::string D(1, d), C(1, c);
  e = econf_readFile(&back, (g_scr.dir + "/out.conf").c_str(), D.c_str(), C.c_str());
  if (e != ECONF_SUCCESS) {
    char *fn = nullptr;
    uint64_t ln = 0;
    econf_errLocation(&fn, &ln);
    free(fn);
    VF_FAIL("reread-failed", "reading the written file back failed rc=" << e << " (" << econf_errString(e) << ") line " << ln << "\nwritten:\n" << written);
  }
  Snap after = snapshot(back);
  econf_freeFile(back);
  std::string dd = roundtrip_diff(before, after);
  VF_CHECK(dd.empty(), "roundtrip-mismatch", dd << "\nwritten:\n" << written);
}

int main(int argc, char **argv) {
  Harness h;
  h.property_id = "C07";
  h.run = run;
  h.base = 24;
  h.per_size = 18;
  h.setup = [] { g_scr.init(); };
  h.teardown = [] { g_scr.cleanup(); };
  return engine_main(argc, argv, h);
}
