// engine.cpp - rapidcheck driver over choice sequences (the only TU that
// includes rapidcheck), replay, fork isolation, statistics.
#include "engine.hpp"

#include <rapidcheck.h>

#include <fcntl.h>
#include <signal.h>
#include <sys/stat.h>
#include <sys/types.h>
#include <sys/wait.h>
#include <unistd.h>

#include <algorithm>
#include <deque>
#include <functional>
#include <climits>
#include <chrono>
#include <unordered_set>

namespace vf {

CaseRec g_case;
std::vector<std::pair<uint32_t, uint32_t>> g_spans;

// ------------------------------------------------------------------ helpers
std::string esc(const std::string &s) {
  std::string o;
  char b[8];
  for (unsigned char c : s) {
    if (c == '\n')
      o += "\\n";
    else if (c == '\t')
      o += "\\t";
    else if (c == '\\')
      o += "\\\\";
    else if (c < 0x20 || c == 0x7f) {
      snprintf(b, sizeof b, "\\x%02x", c);
      o += b;
    } else
      o += (char)c;
  }
  return o;
}

std::string json_str(const std::string &s) {
  std::string o = "\"";
  char b[8];
  for (size_t i = 0; i < s.size(); i++) {
    unsigned char c = s[i];
    if (c == '"')
      o += "\\\"";
    else if (c == '\\')
      o += "\\\\";
    else if (c == '\n')
      o += "\\n";
    else if (c == '\t')
      o += "\\t";
    else if (c < 0x20 || c == 0x7f) {
      snprintf(b, sizeof b, "\\u%04x", c);
      o += b;
    } else if (c >= 0x80) {
      // keep valid 2-byte UTF-8 (the generators only emit those); anything
      // else is rendered as an escaped latin-1 code point
      if ((c & 0xE0) == 0xC0 && i + 1 < s.size() && ((unsigned char)s[i + 1] & 0xC0) == 0x80 && c >= 0xC2) {
        o += (char)c;
        o += s[++i];
      } else {
        snprintf(b, sizeof b, "\\u%04x", c);
        o += b;
      }
    } else
      o += (char)c;
  }
  o += "\"";
  return o;
}

// ------------------------------------------------------------------ statistics
namespace {
struct Stats {
  uint64_t cases = 0, evaluations = 0, nontrivial_cases = 0;
  std::map<std::string, uint64_t> classes;
  std::unordered_set<uint64_t> distinct;
  std::vector<std::string> samples;
  uint64_t sample_stride = 1, nt_seen = 0;
  std::map<std::string, uint64_t> known;
  std::map<std::string, std::string> notes;
  uint64_t discarded = 0;
} S;

std::set<std::string> g_known_keys;
std::string g_out = ".";
std::string g_prop;
bool g_counting = true;
int g_case_timeout = 120;

void commit(const CaseRec &r) {
  if (!g_counting) return;
  S.cases++;
  S.evaluations += r.evals;
  for (auto &c : r.classes) S.classes[c]++;
  for (auto &k : r.known) S.known[k]++;
  if (r.nontrivial) {
    S.nontrivial_cases++;
    S.distinct.insert(r.shape_hash);
    // deterministic thinning sample: first 3, then every stride-th
    bool take = S.nt_seen < 3 || (S.nt_seen % S.sample_stride == 0);
    S.nt_seen++;
    if (take && !r.desc.empty()) {
      S.samples.push_back(r.desc.size() > 1500 ? r.desc.substr(0, 1500) + "...[cut]" : r.desc);
      if (S.samples.size() > 10) {
        // keep first 3, drop every second of the rest, double the stride
        std::vector<std::string> k(S.samples.begin(), S.samples.begin() + 3);
        for (size_t i = 3; i < S.samples.size(); i += 2) k.push_back(S.samples[i]);
        S.samples.swap(k);
        S.sample_stride *= 2;
      }
    }
  }
}

void write_stats() {
  std::string tmp = g_out + "/stats.json.tmp";
  FILE *f = fopen(tmp.c_str(), "w");
  if (!f) return;
  fprintf(f, "{\"property\":%s,\"cases\":%llu,\"evaluations\":%llu,\"nontrivial_cases\":%llu,\"distinct\":%zu,\n",
          json_str(g_prop).c_str(), (unsigned long long)S.cases, (unsigned long long)S.evaluations,
          (unsigned long long)S.nontrivial_cases, S.distinct.size());
  fprintf(f, "\"classes\":{");
  bool first = true;
  for (auto &kv : S.classes) {
    fprintf(f, "%s%s:%llu", first ? "" : ",", json_str(kv.first).c_str(), (unsigned long long)kv.second);
    first = false;
  }
  fprintf(f, "},\n\"known\":{");
  first = true;
  for (auto &kv : S.known) {
    fprintf(f, "%s%s:%llu", first ? "" : ",", json_str(kv.first).c_str(), (unsigned long long)kv.second);
    first = false;
  }
  fprintf(f, "},\n\"notes\":{");
  first = true;
  for (auto &kv : S.notes) {
    fprintf(f, "%s%s:%s", first ? "" : ",", json_str(kv.first).c_str(), kv.second.c_str());
    first = false;
  }
  fprintf(f, "},\n\"samples\":[");
  first = true;
  for (auto &s : S.samples) {
    fprintf(f, "%s%s", first ? "" : ",\n", json_str(s).c_str());
    first = false;
  }
  fprintf(f, "]}\n");
  fclose(f);
  rename(tmp.c_str(), (g_out + "/stats.json").c_str());
  // distinct hashes as a binary side file (united by the driver across shards)
  std::string db = g_out + "/distinct.bin";
  FILE *g = fopen(db.c_str(), "wb");
  if (g) {
    std::vector<uint64_t> v(S.distinct.begin(), S.distinct.end());
    if (!v.empty()) fwrite(v.data(), 8, v.size(), g);
    fclose(g);
  }
}

// cases that ran earlier in the same process and that the failing case needs (state the library keeps
// process-wide: drop-in directory list, restrictions, last error location). Empty for almost every case.
std::vector<std::vector<uint32_t>> g_prelude;

void write_case(const std::string &path, const std::vector<uint32_t> &ch, const std::string &symptom,
                const std::string &detail, const std::string &desc,
                const std::vector<std::vector<uint32_t>> *prelude = nullptr) {
  std::string tmp = path + ".tmp";
  FILE *f = fopen(tmp.c_str(), "w");
  if (!f) return;
  fprintf(f, "property=%s\n", g_prop.c_str());
  if (prelude)
    for (auto &pc : *prelude) {
      fprintf(f, "prelude=");
      for (size_t i = 0; i < pc.size(); i++) fprintf(f, "%s%u", i ? "," : "", pc[i]);
      fprintf(f, "\n");
    }
  fprintf(f, "choices=");
  for (size_t i = 0; i < ch.size(); i++) fprintf(f, "%s%u", i ? "," : "", ch[i]);
  fprintf(f, "\n");
  if (!symptom.empty()) fprintf(f, "symptom=%s\n", symptom.c_str());
  auto dump = [&](const char *tag, const std::string &s) {
    size_t p = 0;
    while (p < s.size()) {
      size_t q = s.find('\n', p);
      if (q == std::string::npos) q = s.size();
      fprintf(f, "# %s: %s\n", tag, s.substr(p, q - p).c_str());
      p = q + 1;
    }
  };
  dump("detail", detail);
  dump("case", desc);
  fclose(f);
  rename(tmp.c_str(), path.c_str());
}

bool read_case(const std::string &path, std::vector<uint32_t> &ch, std::vector<std::vector<uint32_t>> *prelude = nullptr) {
  FILE *f = fopen(path.c_str(), "r");
  if (!f) return false;
  char *line = nullptr;
  size_t cap = 0;
  bool ok = false;
  auto numbers = [](char *p, std::vector<uint32_t> &out) {
    while (*p && *p != '\n') {
      char *e;
      unsigned long v = strtoul(p, &e, 10);
      if (e == p) break;
      out.push_back((uint32_t)v);
      p = e;
      if (*p == ',') p++;
    }
  };
  while (getline(&line, &cap, f) > 0) {
    if (strncmp(line, "choices=", 8) == 0) {
      ok = true;
      numbers(line + 8, ch);
    } else if (prelude && strncmp(line, "prelude=", 8) == 0) {
      prelude->emplace_back();
      numbers(line + 8, prelude->back());
    }
  }
  free(line);
  fclose(f);
  return ok;
}

// one in-process execution. returns true if passed.
struct RunRes {
  bool ok = true;
  std::string symptom, detail;
};

const Harness *g_h = nullptr;

void on_alarm(int) {
  const char m[] = "HANG: case exceeded the per-case time limit\n";
  (void)!write(2, m, sizeof m - 1);
  _exit(11);
}

RunRes run_inproc(const std::vector<uint32_t> &ch) {
  RunRes r;
  for (auto &pc : g_prelude) {
    // earlier cases of the same process: run for their effect on process-wide state only
    g_case.clear();
    g_spans.clear();
    Src ps(pc);
    try {
      g_h->run(ps);
    } catch (const Fail &) {
    }
  }
  g_case.clear();
  g_spans.clear();
  Src s(ch);
  try {
    g_h->run(s);
  } catch (const Fail &f) {
    r.ok = false;
    r.symptom = f.symptom;
    r.detail = f.detail;
  }
  return r;
}

void put_str(std::string &o, const std::string &s) {
  uint32_t n = (uint32_t)s.size();
  o.append((const char *)&n, 4);
  o += s;
}
bool get_str(const std::string &b, size_t &p, std::string &s) {
  if (p + 4 > b.size()) return false;
  uint32_t n;
  memcpy(&n, b.data() + p, 4);
  p += 4;
  if (p + n > b.size()) return false;
  s.assign(b, p, n);
  p += n;
  return true;
}

RunRes run_forked(const std::vector<uint32_t> &ch) {
  RunRes r;
  int fd[2];
  if (pipe(fd) != 0) {
    perror("pipe");
    exit(2);
  }
  fflush(stdout);
  fflush(stderr);
  pid_t pid = fork();
  if (pid < 0) {
    perror("fork");
    exit(2);
  }
  if (pid == 0) {
    close(fd[0]);
    signal(SIGALRM, on_alarm);
    alarm(g_case_timeout);
    RunRes c = run_inproc(ch);
    std::string o;
    o += c.ok ? 'P' : 'F';
    put_str(o, c.symptom);
    put_str(o, c.detail);
    put_str(o, g_case.desc);
    uint64_t nums[4] = {g_case.nontrivial ? 1u : 0u, g_case.shape_hash, g_case.evals, g_case.digest};
    o.append((const char *)nums, sizeof nums);
    uint32_t nc = (uint32_t)g_case.classes.size();
    o.append((const char *)&nc, 4);
    for (auto &x : g_case.classes) put_str(o, x);
    nc = (uint32_t)g_case.known.size();
    o.append((const char *)&nc, 4);
    for (auto &x : g_case.known) put_str(o, x);
    nc = (uint32_t)g_spans.size();
    o.append((const char *)&nc, 4);
    if (nc) o.append((const char *)g_spans.data(), nc * sizeof(g_spans[0]));
    o += 'E';
    size_t off = 0;
    while (off < o.size()) {
      ssize_t w = write(fd[1], o.data() + off, o.size() - off);
      if (w <= 0) break;
      off += (size_t)w;
    }
    close(fd[1]);
    _exit(0);
  }
  close(fd[1]);
  std::string b;
  char buf[65536];
  ssize_t n;
  while ((n = read(fd[0], buf, sizeof buf)) > 0) b.append(buf, (size_t)n);
  close(fd[0]);
  int st = 0;
  waitpid(pid, &st, 0);
  g_case.clear();
  g_spans.clear();
  bool complete = !b.empty() && b.back() == 'E' && WIFEXITED(st) && WEXITSTATUS(st) == 0;
  if (!complete) {
    r.ok = false;
    char m[128];
    if (WIFSIGNALED(st)) {
      r.symptom = "crash";
      snprintf(m, sizeof m, "child killed by signal %d", WTERMSIG(st));
    } else if (WIFEXITED(st) && WEXITSTATUS(st) == 11) {
      r.symptom = "hang";
      snprintf(m, sizeof m, "child exceeded %d s", g_case_timeout);
    } else {
      r.symptom = "crash";
      snprintf(m, sizeof m, "child exited with status %d without a verdict (sanitizer report on stderr)",
               WIFEXITED(st) ? WEXITSTATUS(st) : -1);
    }
    r.detail = m;
    return r;
  }
  size_t p = 1;
  r.ok = b[0] == 'P';
  get_str(b, p, r.symptom);
  get_str(b, p, r.detail);
  get_str(b, p, g_case.desc);
  uint64_t nums[4];
  memcpy(nums, b.data() + p, sizeof nums);
  p += sizeof nums;
  g_case.nontrivial = nums[0] != 0;
  g_case.shape_hash = nums[1];
  g_case.evals = nums[2];
  g_case.digest = nums[3];
  uint32_t nc;
  memcpy(&nc, b.data() + p, 4);
  p += 4;
  for (uint32_t i = 0; i < nc; i++) {
    std::string x;
    get_str(b, p, x);
    g_case.classes.push_back(x);
  }
  memcpy(&nc, b.data() + p, 4);
  p += 4;
  for (uint32_t i = 0; i < nc; i++) {
    std::string x;
    get_str(b, p, x);
    g_case.known.push_back(x);
  }
  memcpy(&nc, b.data() + p, 4);
  p += 4;
  g_spans.resize(nc);
  if (nc) memcpy(g_spans.data(), b.data() + p, nc * sizeof(g_spans[0]));
  return r;
}

// ---- shrinking of a choice sequence (rapidcheck's container shrinking is quadratic in the sequence length; this
// one knows that only the consumed prefix matters, that 0 is the simplest choice and which spans of choices
// belong together). `fails(cand, out)` evaluates a candidate; `accepted()` is called after every improvement.
[[maybe_unused]] static void shrink_choices(std::vector<uint32_t> &ch, RunRes &r, std::string &desc, uint64_t &budget, bool use_spans,
                           const std::function<RunRes(const std::vector<uint32_t> &)> &evaluate,
                           const std::function<void()> &accepted) {
  std::vector<std::pair<uint32_t, uint32_t>> spans;
  if (use_spans) spans = g_spans;
  auto still_fails = [&](const std::vector<uint32_t> &cand, RunRes &out) {
    if (budget == 0) return false;
    budget--;
    RunRes rr = evaluate(cand);
    if (rr.ok) return false;
    out = rr;
    desc = g_case.desc;
    if (use_spans) spans = g_spans;
    return true;
  };
  auto accept = [&](std::vector<uint32_t> &cur_ch, std::vector<uint32_t> &cand, RunRes &rr) {
    cur_ch.swap(cand);
    r = rr;
    accepted();
  };
  auto without = [](const std::vector<uint32_t> &v, size_t a, size_t b) {
    std::vector<uint32_t> c(v.begin(), v.begin() + a);
    if (b < v.size()) c.insert(c.end(), v.begin() + b, v.end());
    return c;
  };
  // pass 0: shortest failing prefix (heuristic bisection)
  {
    RunRes rr;
    size_t lo = 0, hi = ch.size();
    while (lo < hi && budget) {
      size_t mid = (lo + hi) / 2;
      std::vector<uint32_t> cand(ch.begin(), ch.begin() + mid);
      if (still_fails(cand, rr)) {
        hi = mid;
        accept(ch, cand, rr);
      } else
        lo = mid + 1;
    }
  }
  bool progress = true;
  int rounds = 0;
  while (progress && budget && rounds++ < 12) {
    progress = false;
    // pass 1: delete whole spans, last first, outer before inner
    // (spans are refreshed by every failing run)
    {
      uint32_t cf = UINT32_MAX, cs = UINT32_MAX;  // cursor: spans ordered after it are still to be tried
      for (;;) {
        std::vector<std::pair<uint32_t, uint32_t>> sp = spans;
        std::sort(sp.begin(), sp.end(), [](auto &x, auto &y) {
          return x.first != y.first ? x.first > y.first : x.second > y.second;
        });
        bool tried = false;
        for (auto &q : sp) {
          bool after = q.first < cf || (q.first == cf && q.second < cs);
          if (!after || q.second > ch.size() || q.second <= q.first) continue;
          if (!budget) break;
          tried = true;
          std::vector<uint32_t> cand = without(ch, q.first, q.second);
          RunRes rr;
          if (still_fails(cand, rr)) {
            accept(ch, cand, rr);
            progress = true;
            cf = q.first;
            cs = 0;  // everything starting here or later has been handled
          } else {
            cf = q.first;
            cs = q.second;
          }
          break;  // re-read spans (they may have changed)
        }
        if (!tried) break;
      }
    }
    // pass 2: delete small chunks
    for (size_t chunk : {8u, 4u, 2u, 1u}) {
      size_t pos = ch.size();
      while (pos >= chunk && budget) {
        std::vector<uint32_t> cand = without(ch, pos - chunk, pos);
        RunRes rr;
        if (still_fails(cand, rr)) {
          accept(ch, cand, rr);
          progress = true;
        }
        pos -= 1;
        if (pos > ch.size()) pos = ch.size();
      }
    }
    // pass 3: simplify single choices: 0, small values, then a short bisection
    for (size_t i = 0; i < ch.size() && budget; i++) {
      if (ch[i] == 0) continue;
      std::vector<uint32_t> cand = ch;
      RunRes rr;
      cand[i] = 0;
      if (still_fails(cand, rr)) {
        accept(ch, cand, rr);
        progress = true;
        continue;
      }
      bool done = false;
      for (uint32_t v = 1; v <= 3 && v < ch[i] && !done; v++) {
        cand = ch;
        cand[i] = v;
        if (still_fails(cand, rr)) {
          accept(ch, cand, rr);
          progress = done = true;
        }
      }
      if (done) continue;
      uint32_t lo = 3, hi = ch[i];
      for (int step = 0; step < 10 && hi - lo > 1 && budget; step++) {
        uint32_t mid = lo + (hi - lo) / 2;
        cand = ch;
        cand[i] = mid;
        if (still_fails(cand, rr)) {
          accept(ch, cand, rr);
          hi = mid;
          progress = true;
        } else
          lo = mid;
      }
    }
  }
}

void load_known(const std::string &path) {
  FILE *f = fopen(path.c_str(), "r");
  if (!f) return;
  char *line = nullptr;
  size_t cap = 0;
  while (getline(&line, &cap, f) > 0) {
    std::string l(line);
    if (l.compare(0, 8, "finding:") != 0) continue;
    std::string want = "property=" + g_prop;
    size_t pp = l.find(want);
    if (pp == std::string::npos) continue;
    char after = l[pp + want.size()];
    if (after != ' ' && after != '\t' && after != '\n') continue;
    size_t k = l.find("key=");
    if (k == std::string::npos) continue;
    size_t e = l.find_first_of(" \t\n", k);
    g_known_keys.insert(l.substr(k + 4, e - k - 4));
  }
  free(line);
  fclose(f);
}

}  // namespace

bool known_open(const std::string &key) { return g_known_keys.count(key) != 0; }
void stats_add(const std::string &cls, uint64_t n) { S.classes[cls] += n; }
void stats_note(const std::string &key, const std::string &json_value) { S.notes[key] = json_value; }
void write_mode_case(const std::string &mode_and_args, const std::string &symptom, const std::string &detail) {
  std::string path = g_out + "/found.case";
  FILE *f = fopen(path.c_str(), "w");
  if (!f) return;
  fprintf(f, "property=%s\nmode=%s\nsymptom=%s\n", g_prop.c_str(), mode_and_args.c_str(), symptom.c_str());
  size_t p = 0;
  while (p < detail.size()) {
    size_t q = detail.find('\n', p);
    if (q == std::string::npos) q = detail.size();
    fprintf(f, "# case: %s\n", detail.substr(p, q - p).c_str());
    p = q + 1;
  }
  fclose(f);
}
void stats_commit_case() {
  commit(g_case);
  g_case.clear();
}

#ifdef VF_LIBFUZZER
// ------------------------------------------------------------------ libFuzzer mode
// The same property, driven by libFuzzer: the fuzzer's bytes are the choice
// sequence (two bytes per choice), so coverage feedback from the library steers
// the structured generator. The harness TU is compiled with -Dmain=vf_harness_main;
// its main() only registers the Harness here.
}  // namespace vf
int vf_harness_main(int argc, char **argv);
namespace vf {
static Harness g_fuzz_h;
int engine_main(int, char **, const Harness &h) {
  g_fuzz_h = h;
  g_h = &g_fuzz_h;
  g_prop = h.property_id;
  const char *kp = getenv("VF_KNOWN");
  if (kp) load_known(kp);
  if (h.setup) h.setup();
  atexit([] {
    const char *d = getenv("VF_STATS_DIR");
    if (d) {
      g_out = d;
      write_stats();
    }
    if (g_fuzz_h.teardown) g_fuzz_h.teardown();
  });
  return 0;
}
}  // namespace vf
extern "C" int LLVMFuzzerInitialize(int *, char ***) {
  char a0[] = "fuzz";
  char *av[] = {a0, nullptr};
  vf_harness_main(1, av);
  return 0;
}
extern "C" int LLVMFuzzerTestOneInput(const uint8_t *data, size_t size) {
  std::vector<uint32_t> ch;
  ch.reserve(size / 2);
  for (size_t i = 0; i + 1 < size; i += 2) ch.push_back((uint32_t)data[i] | ((uint32_t)data[i + 1] << 8));
  vf::RunRes r = vf::run_inproc(ch);
  vf::commit(vf::g_case);
  if (!r.ok) {
    fprintf(stderr, "ORACLE FAILURE property=%s symptom=%s\n%s\ncase: %s\n", vf::g_prop.c_str(), r.symptom.c_str(), r.detail.c_str(),
            vf::g_case.desc.c_str());
    fflush(nullptr);
    __builtin_trap();
  }
  return 0;
}
namespace vf {
#else
int engine_main(int argc, char **argv, const Harness &h) {
  g_h = &h;
  g_prop = h.property_id;
  std::string replay, mode, known_path;
  bool isolate = h.always_isolate;
  long dump_index = -1;
  bool want_digests = false, minimise = false;
  int mode_arg0 = argc;
  for (int i = 1; i < argc; i++) {
    std::string a = argv[i];
    if (a == "--replay" && i + 1 < argc)
      replay = argv[++i];
    else if (a == "--out" && i + 1 < argc)
      g_out = argv[++i];
    else if (a == "--known" && i + 1 < argc)
      known_path = argv[++i];
    else if (a == "--isolate")
      isolate = true;
    else if (a == "--no-isolate")
      isolate = false;
    else if (a == "--dump-index" && i + 1 < argc)
      dump_index = atol(argv[++i]);
    else if (a == "--digests")
      want_digests = true;
    else if (a == "--minimise")
      minimise = true;
    else if (a == "--case-timeout" && i + 1 < argc)
      g_case_timeout = atoi(argv[++i]);
    else if (a == "--mode" && i + 1 < argc) {
      mode = argv[++i];
      mode_arg0 = i + 1;
      break;
    } else {
      fprintf(stderr, "unknown argument %s\n", a.c_str());
      return 2;
    }
  }
  if (!known_path.empty()) load_known(known_path);
  mkdir(g_out.c_str(), 0755);
  signal(SIGPIPE, SIG_IGN);
  if (h.setup) h.setup();

  int rc_exit = 0;
  if (!replay.empty()) {
    std::vector<uint32_t> ch;
    std::string mode_line;
    {
      FILE *mf = fopen(replay.c_str(), "r");
      char *line = nullptr;
      size_t cap = 0;
      while (mf && getline(&line, &cap, mf) > 0)
        if (strncmp(line, "mode=", 5) == 0) {
          mode_line = line + 5;
          while (!mode_line.empty() && (mode_line.back() == '\n' || mode_line.back() == ' ')) mode_line.pop_back();
        }
      free(line);
      if (mf) fclose(mf);
    }
    if (!mode_line.empty()) {
      std::vector<std::string> toks;
      std::istringstream is(mode_line);
      std::string t;
      while (is >> t) toks.push_back(t);
      std::vector<char *> av;
      for (size_t i = 1; i < toks.size(); i++) av.push_back(const_cast<char *>(toks[i].c_str()));
      int r = h.extra ? h.extra(toks[0], (int)av.size(), av.data()) : -1;
      if (h.teardown) h.teardown();
      if (r == 0) {
        printf("REPLAY PASS property=%s\n", g_prop.c_str());
        return 0;
      }
      printf("REPLAY FAIL property=%s mode=%s\n", g_prop.c_str(), mode_line.c_str());
      return 10;
    }
    if (!read_case(replay, ch, &g_prelude)) {
      fprintf(stderr, "cannot read case file %s\n", replay.c_str());
      return 2;
    }
    signal(SIGALRM, on_alarm);
    if (minimise) {
      // a failure that needs earlier cases of its process: every candidate (earlier cases + case) runs in a fresh
      // child. Drop the earlier cases that are not needed, then shrink the case, then the remaining earlier cases.
      std::string found = g_out + "/found.case";
      unlink(found.c_str());
      RunRes r = run_forked(ch);
      if (r.ok) {
        printf("REPLAY PASS property=%s\n", g_prop.c_str());
        if (h.teardown) h.teardown();
        return 0;
      }
      std::string desc = g_case.desc;
      uint64_t budget = h.shrink_budget / 2 + 50;
      for (size_t i = 0; i < g_prelude.size() && budget;) {
        std::vector<uint32_t> keep = g_prelude[i];
        g_prelude.erase(g_prelude.begin() + (long)i);
        budget--;
        RunRes rr = run_forked(ch);
        if (!rr.ok) {
          r = rr;
          desc = g_case.desc;
        } else {
          g_prelude.insert(g_prelude.begin() + (long)i, keep);
          i++;
        }
      }
      auto save = [&] { write_case(found, ch, r.symptom, r.detail, desc, &g_prelude); };
      save();
      shrink_choices(ch, r, desc, budget, true, [&](const std::vector<uint32_t> &c) { return run_forked(c); }, save);
      while (!ch.empty() && ch.back() == 0) ch.pop_back();
      for (size_t i = 0; i < g_prelude.size(); i++) {
        std::vector<uint32_t> pc = g_prelude[i];
        RunRes pr = r;
        std::string pdesc = desc;
        uint64_t b2 = std::min<uint64_t>(budget, 120);
        budget -= b2;
        shrink_choices(pc, pr, pdesc, b2, false,
                       [&](const std::vector<uint32_t> &c) {
                         std::vector<uint32_t> old = g_prelude[i];
                         g_prelude[i] = c;
                         RunRes rr = run_forked(ch);
                         if (rr.ok) g_prelude[i] = old;
                         return rr;
                       },
                       [&] {
                         r = pr;
                         desc = pdesc;
                       });
        while (!g_prelude[i].empty() && g_prelude[i].back() == 0) g_prelude[i].pop_back();
      }
      save();
      printf("MINIMISED property=%s earlier_cases=%zu\n", g_prop.c_str(), g_prelude.size());
      if (h.teardown) h.teardown();
      return 10;
    }
    alarm(g_case_timeout * 10);
    RunRes r = isolate ? run_forked(ch) : run_inproc(ch);
    alarm(0);
    if (!g_prelude.empty()) printf("earlier cases of the same process replayed first: %zu\n", g_prelude.size());
    printf("case: %s\n", g_case.desc.c_str());
    printf("digest=%016llx\n", (unsigned long long)g_case.digest);
    for (auto &k : g_case.known) printf("known-finding-hit: %s\n", k.c_str());
    if (r.ok) {
      printf("REPLAY PASS property=%s\n", g_prop.c_str());
    } else {
      printf("REPLAY FAIL property=%s symptom=%s\n%s\n", g_prop.c_str(), r.symptom.c_str(), r.detail.c_str());
      rc_exit = 10;
    }
  } else if (!mode.empty()) {
    int r = h.extra ? h.extra(mode, argc - mode_arg0, argv + mode_arg0) : -1;
    if (r < 0) {
      fprintf(stderr, "unknown mode %s\n", mode.c_str());
      return 2;
    }
    write_stats();
    rc_exit = r;
  } else {
    const int base = h.base, per = h.per_size;
    // A custom rapidcheck generator: the choice sequence is drawn directly from
    // rapidcheck's own splittable Random (seeded through RC_PARAMS); its length is
    // uniform in [0, base + size*per_size].  No per-element Shrinkable is built
    // (shrinking is done on the sequence by the code below), which makes
    // generation ~20x cheaper than gen::container for sequences of ~1000 choices.
    rc::Gen<std::vector<uint32_t>> gen([=](const rc::Random &random, int size) {
      rc::Random r = random;
      size_t maxlen = (size_t)base + (size_t)size * (size_t)per;
      size_t len = (size_t)(r.next() % (maxlen + 1));
      std::vector<uint32_t> v(len);
      for (size_t i = 0; i < len; i += 2) {
        uint64_t x = r.next();
        v[i] = (uint32_t)x;
        if (i + 1 < len) v[i + 1] = (uint32_t)(x >> 32);
      }
      return rc::shrinkable::just(std::move(v));
    });
    std::string cur = g_out + "/current.case", found = g_out + "/found.case";
    unlink(found.c_str());
    uint64_t since_flush = 0;
    signal(SIGALRM, on_alarm);
    // the case about to run is kept in current.case (picked up by the driver
    // after a sanitizer abort); one fd, overwritten in place
    int cur_fd = open(cur.c_str(), O_WRONLY | O_CREAT | O_TRUNC, 0644);
    std::string cur_buf;
    auto evaluate = [&](const std::vector<uint32_t> &ch) {
      if (cur_fd >= 0) {
        cur_buf = "property=" + g_prop + "\nchoices=";
        char nb[16];
        for (size_t i = 0; i < ch.size(); i++) {
          int k = snprintf(nb, sizeof nb, i ? ",%u" : "%u", ch[i]);
          cur_buf.append(nb, (size_t)k);
        }
        cur_buf += "\n";
        if (pwrite(cur_fd, cur_buf.data(), cur_buf.size(), 0) < 0 || ftruncate(cur_fd, (off_t)cur_buf.size()) != 0) {
        }
      }
      alarm(g_case_timeout);
      RunRes r = isolate ? run_forked(ch) : run_inproc(ch);
      alarm(0);
      return r;
    };
    long case_index = -1;
    std::deque<std::vector<uint32_t>> recent;  // the last cases that ran in this process (see found-history.case)
    FILE *digf = want_digests ? fopen((g_out + "/digests.bin").c_str(), "wb") : nullptr;
    bool ok = rc::check(std::string("property ") + g_prop, [&]() {
      std::vector<uint32_t> ch = *gen;
      case_index++;
      if (dump_index >= 0) {
        // only reproduce the generation sequence; write out the requested case and stop there
        if (case_index == dump_index) {
          write_case(g_out + "/dumped.case", ch, "", "", "");
          fflush(nullptr);
          _exit(0);
        }
        return;
      }
      RunRes r = evaluate(ch);
      if (digf) {
        uint64_t dg = r.ok ? g_case.digest : 0;
        fwrite(&dg, 8, 1, digf);
      }
      if (r.ok) {
        commit(g_case);
        if (!isolate) {
          recent.push_back(ch);
          if (recent.size() > 16) recent.pop_front();
        }
        if (++since_flush >= 2000) {
          since_flush = 0;
          write_stats();
        }
        return;
      }
      commit(g_case);
      write_stats();
      g_counting = false;
      // ---- shrink the choice sequence ourselves (rapidcheck's container
      // shrinking is quadratic in the sequence length; ours knows that only the
      // consumed prefix matters and that 0 is the simplest choice)
      std::string desc = g_case.desc;
      write_case(found, ch, r.symptom, r.detail, desc);
      // what ran before it in this process (only needed when the failure depends on process-wide state)
      if (!isolate && !recent.empty()) {
        std::vector<std::vector<uint32_t>> pre(recent.begin(), recent.end());
        write_case(g_out + "/found-history.case", ch, r.symptom, r.detail, desc, &pre);
      }
      uint64_t budget = h.shrink_budget;
      shrink_choices(ch, r, desc, budget, true, evaluate, [&] { write_case(found, ch, r.symptom, r.detail, desc); });
      // drop trailing zeros (an exhausted source yields zeros anyway)
      while (!ch.empty() && ch.back() == 0) ch.pop_back();
      write_case(found, ch, r.symptom, r.detail, desc);
      RC_FAIL(r.symptom + ": " + r.detail + "\ncase: " + desc);
    });
    if (digf) fclose(digf);
    write_stats();
    unlink(cur.c_str());
    rc_exit = ok ? 0 : 10;
  }
  if (h.teardown) h.teardown();
  return rc_exit;
}

#endif  // VF_LIBFUZZER

}  // namespace vf
