// fsutil.hpp - scratch directories and small file helpers (header only)
#pragma once
#include <dirent.h>
#include <errno.h>
#include <fcntl.h>
#include <sys/stat.h>
#include <unistd.h>

#include <cstdio>
#include <cstdlib>
#include <cstring>
#include <string>
#include <vector>

namespace vf {

inline void rm_rf(const std::string &path) {
  struct stat sb;
  if (lstat(path.c_str(), &sb) != 0) return;
  if (S_ISDIR(sb.st_mode)) {
    DIR *d = opendir(path.c_str());
    if (d) {
      struct dirent *e;
      std::vector<std::string> names;
      while ((e = readdir(d)))
        if (strcmp(e->d_name, ".") && strcmp(e->d_name, "..")) names.push_back(e->d_name);
      closedir(d);
      for (auto &n : names) rm_rf(path + "/" + n);
    }
    rmdir(path.c_str());
  } else
    unlink(path.c_str());
}

// remove everything below dir, keep dir
inline void clear_dir(const std::string &path) {
  DIR *d = opendir(path.c_str());
  if (!d) return;
  struct dirent *e;
  std::vector<std::string> names;
  while ((e = readdir(d)))
    if (strcmp(e->d_name, ".") && strcmp(e->d_name, "..")) names.push_back(e->d_name);
  closedir(d);
  for (auto &n : names) rm_rf(path + "/" + n);
}

inline void mkdir_p(const std::string &path) {
  std::string cur;
  size_t i = 0;
  while (i <= path.size()) {
    if (i == path.size() || path[i] == '/') {
      if (!cur.empty()) mkdir(cur.c_str(), 0755);
    }
    if (i < path.size()) cur += path[i];
    i++;
  }
}

// (no O_TRUNC: truncating a tmpfs file frees its pages and the next write
// allocates them again, which is the dominant cost when 16 shards run in
// parallel; overwrite in place and cut to length instead)
inline bool write_file(const std::string &path, const std::string &data) {
  int fd = open(path.c_str(), O_WRONLY | O_CREAT | O_NOFOLLOW, 0644);
  if (fd < 0) return false;
  size_t off = 0;
  while (off < data.size()) {
    ssize_t w = write(fd, data.data() + off, data.size() - off);
    if (w <= 0) {
      close(fd);
      return false;
    }
    off += (size_t)w;
  }
  if (ftruncate(fd, (off_t)data.size()) != 0) {
    close(fd);
    return false;
  }
  close(fd);
  return true;
}

inline bool read_file_bytes(const std::string &path, std::string &out) {
  out.clear();
  int fd = open(path.c_str(), O_RDONLY);
  if (fd < 0) return false;
  char buf[65536];
  ssize_t n;
  while ((n = read(fd, buf, sizeof buf)) > 0) out.append(buf, (size_t)n);
  close(fd);
  return true;
}

// per-process scratch directory on tmpfs
struct Scratch {
  std::string dir;
  pid_t owner = 0;
  void init() {
    const char *base = getenv("VERIF_SCRATCH");
    std::string b = base && *base ? base : "/dev/shm";
    struct stat sb;
    if (stat(b.c_str(), &sb) != 0 || !S_ISDIR(sb.st_mode)) {
      const char *t = getenv("TMPDIR");
      b = t && *t ? t : "/tmp";
    }
    std::string tmpl = b + "/vf-XXXXXX";
    std::vector<char> buf(tmpl.begin(), tmpl.end());
    buf.push_back(0);
    if (!mkdtemp(buf.data())) {
      perror("mkdtemp");
      exit(2);
    }
    dir = buf.data();
    owner = getpid();
  }
  void cleanup() {
    if (!dir.empty() && owner == getpid()) rm_rf(dir);
    dir.clear();
  }
};

inline std::string collapse_slashes(const std::string &p) {
  std::string o;
  for (char c : p) {
    if (c == '/' && !o.empty() && o.back() == '/') continue;
    o += c;
  }
  return o;
}

inline std::string base_name(const std::string &p) {
  size_t k = p.find_last_of('/');
  return k == std::string::npos ? p : p.substr(k + 1);
}

}  // namespace vf
