// model.hpp - reference model types and observation of a live econf_file
// through the public API only.  Section "" means group-less.
#pragma once
#include <map>
#include <optional>
#include <string>
#include <utility>
#include <vector>

#include "engine.hpp"

extern "C" {
#include "libeconf.h"
#include "libeconf_ext.h"
}

namespace vf {

// ------------------------------------------------------------------ model
struct MEntry {
  std::string section;  // "" = group-less
  std::string key;
  std::string value;    // NULL is identified with "" unless stated otherwise
};

struct Model {
  std::vector<std::string> declared;  // sections in order of first appearance (key-less ones included)
  std::vector<MEntry> entries;

  void declare(const std::string &s) {
    if (s.empty()) return;
    for (auto &d : declared)
      if (d == s) return;
    declared.push_back(s);
  }
  const MEntry *lookup(const std::string &s, const std::string &k) const {
    for (auto &e : entries)
      if (e.section == s && e.key == k) return &e;
    return nullptr;
  }
  MEntry *lookup(const std::string &s, const std::string &k) {
    for (auto &e : entries)
      if (e.section == s && e.key == k) return &e;
    return nullptr;
  }
  void set(const std::string &s, const std::string &k, const std::string &v) {
    if (MEntry *e = lookup(s, k)) {
      e->value = v;
      return;
    }
    declare(s);
    entries.push_back({s, k, v});
  }
  void append(const std::string &s, const std::string &k, const std::string &v) {
    declare(s);
    entries.push_back({s, k, v});
  }
  std::vector<std::string> keys(const std::string &s) const {
    std::vector<std::string> r;
    for (auto &e : entries)
      if (e.section == s) r.push_back(e.key);
    return r;
  }
  // sections that bear keys, in order of first key
  std::vector<std::string> key_sections() const {
    std::vector<std::string> r;
    for (auto &e : entries) {
      if (e.section.empty()) continue;
      bool f = false;
      for (auto &x : r) f = f || x == e.section;
      if (!f) r.push_back(e.section);
    }
    return r;
  }
};

// ------------------------------------------------------------------ observation
struct Observed {
  int rc_groups = 0;
  std::vector<std::string> groups;                                // econf_getGroups
  std::vector<std::pair<std::string, std::vector<std::string>>> keys;  // ("" first, then each group) -> keys
  std::map<std::pair<std::string, std::string>, std::optional<std::string>> vals;  // nullopt = NULL pointer
  std::string error;  // non-empty: an API call misbehaved while observing
};

// Out-parameters are handed in holding a recognisable non-NULL value (what a caller's re-used or uninitialised
// variable looks like): a successful call has to overwrite it.
static char *const VF_STALE_STR = (char *)0x5a5a5a50;
static char **const VF_STALE_ARR = (char **)0x5a5a5a58;

inline Observed observe(econf_file *kf) {
  Observed o;
  size_t n = 4242;
  char **g = VF_STALE_ARR;
  econf_err e = econf_getGroups(kf, &n, &g);
  o.rc_groups = e;
  if (e == ECONF_SUCCESS && (g == VF_STALE_ARR || n == 4242)) {
    o.error = "getGroups: success, but the out-parameters were not written";
    return o;
  }
  if (e == ECONF_SUCCESS) {
    for (size_t i = 0; i < n; i++) o.groups.push_back(g[i]);
    if (g && g[n] != nullptr) o.error = "getGroups: array not NULL-terminated";
    econf_freeArray(g);
  } else if (e != ECONF_NOGROUP) {
    o.error = "getGroups rc=" + std::to_string(e);
  }
  std::vector<std::string> secs;
  secs.push_back("");
  for (auto &s : o.groups) secs.push_back(s);
  for (auto &s : secs) {
    size_t kn = 4242;
    char **ks = VF_STALE_ARR;
    e = econf_getKeys(kf, s.empty() ? nullptr : s.c_str(), &kn, &ks);
    std::vector<std::string> kv;
    if (e == ECONF_SUCCESS && (ks == VF_STALE_ARR || kn == 4242)) {
      o.error = "getKeys(" + esc(s) + "): success, but the out-parameters were not written";
      return o;
    }
    if (e == ECONF_SUCCESS) {
      for (size_t i = 0; i < kn; i++) kv.push_back(ks[i]);
      if (ks && ks[kn] != nullptr) o.error = "getKeys: array not NULL-terminated";
      econf_freeArray(ks);
    } else if (e != ECONF_NOKEY) {
      o.error = "getKeys(" + esc(s) + ") rc=" + std::to_string(e);
    }
    o.keys.push_back({s, kv});
    for (auto &k : kv) {
      auto id = std::make_pair(s, k);
      if (o.vals.count(id)) continue;
      char *v = VF_STALE_STR;
      e = econf_getStringValue(kf, s.empty() ? nullptr : s.c_str(), k.c_str(), &v);
      if (e != ECONF_SUCCESS) {
        o.error = "getStringValue(" + esc(s) + "," + esc(k) + ") rc=" + std::to_string(e);
        continue;
      }
      if (v == VF_STALE_STR) {
        o.error = "getStringValue(" + esc(s) + "," + esc(k) + "): success, but the out-pointer was not written";
        continue;
      }
      if (v)
        o.vals[id] = std::string(v);
      else
        o.vals[id] = std::nullopt;
      free(v);
    }
  }
  return o;
}

inline std::string show(const Observed &o) {
  std::string r;
  r += "groups[rc=" + std::to_string(o.rc_groups) + "]:";
  for (auto &g : o.groups) r += " [" + esc(g) + "]";
  r += "\n";
  for (auto &sk : o.keys) {
    for (auto &k : sk.second) {
      auto it = o.vals.find({sk.first, k});
      r += "  [" + esc(sk.first) + "] " + esc(k) + " = ";
      if (it == o.vals.end())
        r += "<?>";
      else if (!it->second)
        r += "<NULL>";
      else
        r += "'" + esc(*it->second) + "'";
      r += "\n";
    }
  }
  if (!o.error.empty()) r += "  ERROR " + o.error + "\n";
  return r;
}

inline std::string show(const Model &m) {
  std::string r = "declared:";
  for (auto &g : m.declared) r += " [" + esc(g) + "]";
  r += "\n";
  for (auto &e : m.entries) r += "  [" + esc(e.section) + "] " + esc(e.key) + " = '" + esc(e.value) + "'\n";
  return r;
}

// Compare an observation with a model: sections (declared order, key-less ones
// included when `check_declared`), per-section key listing incl. duplicates,
// value of each distinct (section,key) = first definition. NULL == "".
// Returns "" when equal, else a description.
inline std::string diff_model(const Observed &o, const Model &m, bool check_declared = true) {
  if (!o.error.empty()) return "observation error: " + o.error;
  if (check_declared) {
    if (o.groups != m.declared) {
      std::string r = "section list differs: got";
      for (auto &g : o.groups) r += " [" + esc(g) + "]";
      r += " expected";
      for (auto &g : m.declared) r += " [" + esc(g) + "]";
      return r;
    }
  } else {
    // key-bearing sections, in listing order, must be exactly the model's (key-less ones are tolerated)
    std::vector<std::string> got;
    for (auto &sk : o.keys)
      if (!sk.first.empty() && !sk.second.empty()) got.push_back(sk.first);
    if (got != m.key_sections()) {
      std::string r = "key-bearing sections differ: got";
      for (auto &g : got) r += " [" + esc(g) + "]";
      r += " expected";
      for (auto &g : m.key_sections()) r += " [" + esc(g) + "]";
      return r;
    }
  }
  for (auto &sk : o.keys) {
    auto mk = m.keys(sk.first);
    if (sk.second != mk) {
      std::string r = "key list of [" + esc(sk.first) + "] differs: got";
      for (auto &k : sk.second) r += " " + esc(k);
      r += " ; expected";
      for (auto &k : mk) r += " " + esc(k);
      return r;
    }
  }
  // sections of the model not observed at all
  for (auto &e : m.entries) {
    bool f = false;
    for (auto &sk : o.keys) f = f || sk.first == e.section;
    if (!f) return "section [" + esc(e.section) + "] of the model not listed";
  }
  for (auto &kv : o.vals) {
    const MEntry *e = m.lookup(kv.first.first, kv.first.second);
    if (!e) return "unexpected key " + esc(kv.first.second);
    std::string got = kv.second ? *kv.second : std::string();
    if (got != e->value)
      return "value of [" + esc(kv.first.first) + "] " + esc(kv.first.second) + " is '" + esc(got) + "' expected '" +
             esc(e->value) + "'";
  }
  return "";
}

// full byte-exact dump (NULL kept apart from ""), incl. extended values
inline std::string full_dump(econf_file *kf, bool with_ext = true) {
  Observed o = observe(kf);
  std::string r = show(o);
  // the delimiter and comment tags are part of what an object is (a later write uses them)
  r += "tags: delimiter=" + std::to_string((int)econf_delimiter_tag(kf)) + " comment=" + std::to_string((int)econf_comment_tag(kf)) + "\n";
  if (with_ext) {
    for (auto &sk : o.keys)
      for (auto &k : sk.second) {
        econf_ext_value *ev = nullptr;
        econf_err e = econf_getExtValue(kf, sk.first.empty() ? nullptr : sk.first.c_str(), k.c_str(), &ev);
        r += "  ext[" + esc(sk.first) + "]" + esc(k) + " rc=" + std::to_string(e);
        if (e == ECONF_SUCCESS && ev) {
          r += " file=" + (ev->file ? esc(ev->file) : std::string("<NULL>"));
          r += " line=" + std::to_string(ev->line_number);
          r += " cb=" + (ev->comment_before_key ? "'" + esc(ev->comment_before_key) + "'" : std::string("<NULL>"));
          r += " ca=" + (ev->comment_after_value ? "'" + esc(ev->comment_after_value) + "'" : std::string("<NULL>"));
          r += " values=";
          for (char **p = ev->values; p && *p; p++) r += "'" + esc(*p) + "',";
          econf_freeExtValue(ev);
        }
        r += "\n";
      }
  }
  char *p = econf_getPath(kf);
  r += "path=" + (p ? esc(p) : std::string("<NULL>")) + "\n";
  free(p);
  r += std::string("delim=") + std::to_string((int)econf_delimiter_tag(kf)) +
       " comment=" + std::to_string((int)econf_comment_tag(kf)) + "\n";
  return r;
}

// One file <dir>/<name>.conf read through one of the entry points that can read a single file:
// 0 econf_readFile, 1 econf_readFileWithCallback (accept all), 2 econf_readConfig (PARSING_DIRS=<dir>),
// 3 econf_readDirs (<dir> as vendor directory, no /etc directory), 4 econf_readConfigWithCallback.
// All of them must deliver the same configuration (the result of 2-4 has been through the layered-read code).
inline bool vf_accept_all_cb(const char *, const void *) { return true; }
static const char *const READ_VIA_NAME[5] = {"readFile", "readFileWithCallback", "readConfig", "readDirs", "readConfigWithCallback"};
inline econf_err read_via(int how, const std::string &dir, const std::string &name, const std::string &D, const std::string &C,
                          econf_file **kf) {
  std::string path = dir + "/" + name + ".conf";
  *kf = nullptr;
  switch (how) {
    case 0: return econf_readFile(kf, path.c_str(), D.c_str(), C.c_str());
    case 1: return econf_readFileWithCallback(kf, path.c_str(), D.c_str(), C.c_str(), vf_accept_all_cb, nullptr);
    case 3: {
#pragma GCC diagnostic push
#pragma GCC diagnostic ignored "-Wdeprecated-declarations"
      econf_err e = econf_readDirs(kf, dir.c_str(), nullptr, name.c_str(), "conf", D.c_str(), C.c_str());
#pragma GCC diagnostic pop
      return e;
    }
    default: {
      econf_err e = econf_newKeyFile_with_options(kf, ("PARSING_DIRS=" + dir).c_str());
      if (e != ECONF_SUCCESS) return e;
      e = how == 2 ? econf_readConfig(kf, nullptr, nullptr, name.c_str(), "conf", D.c_str(), C.c_str())
                   : econf_readConfigWithCallback(kf, nullptr, nullptr, name.c_str(), ".conf", D.c_str(), C.c_str(), vf_accept_all_cb, nullptr);
      if (e != ECONF_SUCCESS && *kf) {
        econf_freeFile(*kf);
        *kf = nullptr;
      }
      return e;
    }
  }
}

inline const char *cs(const std::string &s) { return s.c_str(); }

}  // namespace vf
