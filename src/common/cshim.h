// C-only parts of the public header (the _Generic macros econf_setValue / econf_free and the cleanup helpers),
// made callable from the C++ harnesses
#pragma once
#include <stdint.h>
#ifdef __cplusplus
extern "C" {
#endif
struct econf_file;
int vf_generic_set_i32(struct econf_file *kf, const char *g, const char *k, int32_t v);
int vf_generic_set_u32(struct econf_file *kf, const char *g, const char *k, uint32_t v);
int vf_generic_set_i64(struct econf_file *kf, const char *g, const char *k, int64_t v);
int vf_generic_set_u64(struct econf_file *kf, const char *g, const char *k, uint64_t v);
int vf_generic_set_f32(struct econf_file *kf, const char *g, const char *k, float v);
int vf_generic_set_f64(struct econf_file *kf, const char *g, const char *k, double v);
int vf_generic_set_str(struct econf_file *kf, const char *g, const char *k, char *v);
// econf_free() on a configuration object / on a listing; return what the macro returned
struct econf_file *vf_generic_free_file(struct econf_file *kf);
char **vf_generic_free_array(char **a);
// a scope that owns an object and a listing through __attribute__((cleanup(econf_freeFilep / econf_freeArrayp)));
// returns the read's code, *nkeys = number of sections listed (0 when the read failed or nothing is there)
int vf_cleanup_scope(const char *path, const char *delim, const char *comment, unsigned long *ngroups);
#ifdef __cplusplus
}
#endif
