#include "libeconf.h"
#include "common/cshim.h"

int vf_generic_set_i32(econf_file *kf, const char *g, const char *k, int32_t v) { int x = v; return econf_setValue(kf, g, k, x); }
int vf_generic_set_u32(econf_file *kf, const char *g, const char *k, uint32_t v) { unsigned int x = v; return econf_setValue(kf, g, k, x); }
int vf_generic_set_i64(econf_file *kf, const char *g, const char *k, int64_t v) { long x = v; return econf_setValue(kf, g, k, x); }
int vf_generic_set_u64(econf_file *kf, const char *g, const char *k, uint64_t v) { unsigned long x = v; return econf_setValue(kf, g, k, x); }
int vf_generic_set_f32(econf_file *kf, const char *g, const char *k, float v) { return econf_setValue(kf, g, k, v); }
int vf_generic_set_f64(econf_file *kf, const char *g, const char *k, double v) { return econf_setValue(kf, g, k, v); }
int vf_generic_set_str(econf_file *kf, const char *g, const char *k, char *v) { return econf_setValue(kf, g, k, v); }

econf_file *vf_generic_free_file(econf_file *kf) { return econf_free(kf); }
char **vf_generic_free_array(char **a) { return econf_free(a); }

int vf_cleanup_scope(const char *path, const char *delim, const char *comment, unsigned long *ngroups) {
  __attribute__((cleanup(econf_freeFilep))) econf_file *kf = NULL;
  __attribute__((cleanup(econf_freeArrayp))) char **groups = NULL;
  __attribute__((cleanup(econf_freeFilep))) econf_file *never = NULL;   /* the helpers have to accept NULL */
  __attribute__((cleanup(econf_freeArrayp))) char **never_a = NULL;
  size_t n = 0;
  *ngroups = 0;
  econf_err e = econf_readFile(&kf, path, delim, comment);
  if (e != ECONF_SUCCESS) return (int)e;
  if (econf_getGroups(kf, &n, &groups) == ECONF_SUCCESS) *ngroups = n;
  return (int)e;
}
