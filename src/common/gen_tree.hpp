// gen_tree.hpp - configuration trees (DESIGN 5.3), the layered lookup model
// (DESIGN 6.3) and the reference merge for merge-tame contents (DESIGN 6.2).
#pragma once
#include <sys/stat.h>
#include <unistd.h>

#include <algorithm>
#include <functional>
#include <memory>
#include <optional>
#include <string>
#include <vector>

#include "engine.hpp"
#include "fsutil.hpp"
#include "gen_text.hpp"
#include "model.hpp"

namespace vf {

enum FKind { F_REGULAR = 0, F_EMPTY, F_DEVNULL, F_LINK_REGULAR, F_DANGLING };
static const char *const FKIND_NAME[5] = {"regular", "empty", "devnull", "link", "dangling"};

struct TFile {
  std::string name;
  FKind kind = F_REGULAR;
  Model content;          // merge-tame model of the content (empty for EMPTY/DEVNULL)
  std::string text;       // printed content
  bool has_override = false;
  std::string raw_override;  // replaces text when set (malformed content for C13/C20, decoys for C06)
  long long uid = -1, gid = -1;  // -1: leave as created (64 bits: ids above INT_MAX are legal)
  std::string where;         // "<layer>/<rel path>" label used in value tags
  mutable std::string link_target;  // set by materialise for F_LINK_REGULAR
};

struct TDir {
  std::string postfix;
  bool exists = false;
  std::vector<TFile> files;
};

struct TLayer {
  std::string label;  // usr, run, etc, d1.. (value tags)
  std::string dir;    // path relative to the scratch root, as handed to the library (may contain "//")
  bool dir_arg_missing = false;  // TWODIRS: NULL / "" argument (layer does not exist)
  std::unique_ptr<TFile> main;
  std::vector<TDir> dropdirs;
  std::vector<TFile> distractors;  // main-like files with another suffix etc.
};

struct Tree {
  std::vector<TLayer> layers;  // ascending priority
};

enum Scheme { S_DEFAULT = 0, S_EXPLICIT = 1, S_TWODIRS = 2 };

struct Params {
  Scheme scheme = S_DEFAULT;
  bool project_null = false;
  std::string project = "vfproj";
  std::string usr_subdir = "/usr/lib";
  int name_mode = 0;  // 0 given, 1 NULL, 2 "" (drop-ins only)
  std::string name = "vfex";
  int suffix_mode = 0;  // 0 "word", 1 ".word", 2 NULL, 3 ""
  std::string sfx_word = "conf";
  int confdirs_mode = 0;  // 0 default, 1 per-object CONFIG_DIRS, 2 process-wide list, 3 both (object wins)
  std::vector<std::string> obj_postfixes, glob_postfixes;
  int di = 0, ci = 0;
  int dirarg_mode[2] = {0, 0};  // TWODIRS: 0 real, 1 NULL, 2 ""
  std::vector<std::string> dir_override;  // TWODIRS: other directory names (econftool: /usr/etc, /etc)
  bool join_option = false;               // add JOIN_SAME_ENTRIES=1 to the option string (no effect on merge-tame contents)
  // readConfig*: the caller's options object first goes through a read that fails (same arguments, but a suffix no
  // file carries) while another process-wide drop-in directory list is in force; the list is then put back and the
  // object used for the real read
  bool warmup_failed_read = false;
  // readConfig* with PARSING_DIRS: use this list instead of the layers' directories (e.g. ":<etc>" = no vendor directory)
  std::string parsing_dirs_override;

  bool dropins_only() const { return name_mode != 0; }
  std::string sfx() const { return suffix_mode >= 2 ? std::string() : "." + sfx_word; }
  std::string eff_name() const { return dropins_only() ? project : name; }
  std::vector<std::string> eff_postfixes() const {
    if (dropins_only()) return {".d"};
    if (confdirs_mode == 1 || confdirs_mode == 3) return obj_postfixes;
    if (confdirs_mode == 2) return glob_postfixes;
    return {sfx() + ".d"};
  }
  const char *suffix_arg() const {
    static thread_local std::string buf;
    switch (suffix_mode) {
      case 0: buf = sfx_word; return buf.c_str();
      case 1: buf = "." + sfx_word; return buf.c_str();
      case 2: return nullptr;
      default: return "";
    }
  }
};

struct TreeOpts {
  int max_consulted = 8;
  bool no_unsafe_merge = false;   // unused (kept for callers)
  bool allow_twodirs = true;
  bool only_twodirs = false;
  bool allow_dropins_only = true;
  bool allow_links = true;
  bool two_or_three_layers = false;  // C12
  int fixed_di = -1;
  bool multiline_values = false;  // some values get a continuation line (econftool prints them on several lines)
  std::string comment_lines;      // if set: whole-line comments starting with one of these characters are sprinkled in
};

// ---------------------------------------------------------------- content
// merge-tame content: sections {"",A,B,C}, keys k1..k5, each (section,key) at
// most once, sections contiguous, group-less first, values tagged with origin.
inline void gen_tame_content(Src &s, TFile &f, const std::string &D, bool multiline = false, const std::string &comment_lines = "") {
  static const char *secs[3] = {"A", "B", "C"};
  std::vector<std::string> order = {""};
  // random order of the named sections
  std::vector<int> idx = {0, 1, 2};
  for (int i = 2; i > 0; i--) std::swap(idx[i], idx[s.below((uint32_t)i + 1)]);
  for (int i : idx) order.push_back(secs[i]);
  int n = 0;
  f.content = Model();
  f.text.clear();
  std::string sep = D == " " ? " " : D.substr(0, 1);
  for (auto &sec : order) {
    if (!s.chance(sec.empty() ? 55 : 40)) continue;
    std::vector<int> ks;
    for (int k = 1; k <= 5; k++)
      if (s.chance(40)) ks.push_back(k);
    if (ks.empty()) {
      if (!sec.empty() && s.chance(30)) {  // key-less section
        f.content.declare(sec);
        f.text += "[" + sec + "]\n";
      }
      continue;
    }
    for (size_t i = ks.size(); i > 1; i--) std::swap(ks[i - 1], ks[s.below((uint32_t)i)]);
    if (!sec.empty()) f.text += "[" + sec + "]\n";
    for (int k : ks) {
      // (names contain the letters t, f, n, r, v: a tool that mistranslates the escapes \t \f \n \r \v of its
      // --delimiters option turns those letters into delimiters)
      static const char *const KEYNAMES[6] = {"", "k1", "tk2", "nf3", "rv4", "k5"};
      std::string key = KEYNAMES[k];
      std::string val = f.where + ":" + std::to_string(n++);
      if (!comment_lines.empty() && s.chance(30))
        f.text += std::string(1, comment_lines[s.below((uint32_t)comment_lines.size())]) + " note " + std::to_string(n) + "\n";
      if (multiline && D != " " && s.chance(25)) {
        int extra = 1 + (int)s.below(3);
        std::string mv = val, mt = key + sep + val + "\n";
        for (int x = 1; x <= extra; x++) {
          mv += "\n  " + val + "-more" + std::to_string(x);
          mt += "  " + val + "-more" + std::to_string(x) + "\n";
        }
        f.content.append(sec, key, mv);
        f.text += mt;
        continue;
      }
      f.content.append(sec, key, val);
      f.text += key + sep + val + "\n";
    }
  }
}

// reference merge (DESIGN 6.2) for merge-tame models: group-less first, base
// sections in base order, override-only sections in override order; in a
// section base keys (override value if defined) then override-only keys.
inline Model merge_model(const Model &base, const Model &over) {
  Model r;
  std::vector<std::string> secs = {""};
  for (auto &x : base.key_sections()) secs.push_back(x);
  for (auto &x : over.key_sections())
    if (std::find(secs.begin(), secs.end(), x) == secs.end()) secs.push_back(x);
  for (auto &sec : secs) {
    for (auto &e : base.entries)
      if (e.section == sec) {
        const MEntry *o = over.lookup(sec, e.key);
        r.append(sec, e.key, o ? o->value : e.value);
      }
    for (auto &e : over.entries)
      if (e.section == sec && !base.lookup(sec, e.key) && !r.lookup(sec, e.key)) r.append(sec, e.key, e.value);
  }
  return r;
}

// ---------------------------------------------------------------- generation
inline Params gen_params(Src &s, const TreeOpts &o) {
  Params p;
  size_t sc = o.only_twodirs ? 2 : s.weighted({50, 28, o.allow_twodirs ? 22 : 0});
  p.scheme = (Scheme)sc;
  p.di = o.fixed_di >= 0 ? o.fixed_di : (s.chance(20) ? 2 : 0);
  p.ci = 0;
  p.suffix_mode = (int)s.weighted({40, 35, 8, 7});
  p.sfx_word = s.chance(20) ? "cfg" : "conf";
  if (p.scheme == S_DEFAULT) {
    p.project_null = s.chance(25);
    p.usr_subdir = s.chance(50) ? "/usr/lib" : (s.chance(50) ? "/usr/etc" : "/usr/share/defaults");
    if (o.allow_dropins_only && s.chance(14)) {
      p.name_mode = 1 + (int)s.below(2);
      p.project_null = false;
    }
  } else if (p.scheme == S_EXPLICIT) {
    if (o.allow_dropins_only && s.chance(8)) p.name_mode = 1 + (int)s.below(2);
  } else {
    // occasionally a missing directory argument
    if (s.chance(12)) p.dirarg_mode[s.below(2)] = 1 + (int)s.below(2);
  }
  if (s.chance(15)) p.name = "vf.ex";  // a configuration name with a dot of its own
  p.join_option = s.chance(15);
  if (!p.dropins_only()) {
    p.confdirs_mode = (int)s.weighted({70, p.scheme == S_TWODIRS ? 0 : 12, 12, p.scheme == S_TWODIRS ? 0 : 6});
    std::vector<std::string> uni = {".d", ".dropins", ".cfg.d"};
    if (p.suffix_mode < 2) uni.push_back("/conf.d");
    auto pick_list = [&](std::vector<std::string> &out) {
      int n = 1 + (int)s.below(3);
      std::vector<std::string> u = uni;
      for (int i = 0; i < n && !u.empty(); i++) {
        size_t k = s.below((uint32_t)u.size());
        out.push_back(u[k]);
        u.erase(u.begin() + (long)k);
      }
    };
    if (p.confdirs_mode == 1 || p.confdirs_mode == 3) pick_list(p.obj_postfixes);
    if (p.confdirs_mode == 2 || p.confdirs_mode == 3) pick_list(p.glob_postfixes);
  }
  return p;
}

inline std::vector<std::string> layer_dirs(const Params &p, int nlayers) {
  std::vector<std::string> d;
  if (p.scheme == S_DEFAULT) {
    if (!p.project_null && !p.dropins_only()) {
      d.push_back("/" + p.usr_subdir + "/" + p.project);
      d.push_back("//run/" + p.project);
      d.push_back("//etc/" + p.project);
    } else {
      d.push_back(p.usr_subdir);
      d.push_back("/run");
      d.push_back("/etc");
    }
  } else if (p.scheme == S_EXPLICIT) {
    for (int i = 0; i < nlayers; i++) d.push_back("/d" + std::to_string(i + 1));
  } else if (p.dir_override.size() == 2) {
    d = p.dir_override;
  } else {
    d.push_back("/dist");
    d.push_back("/etc");
  }
  return d;
}

inline TFile gen_file_node(Src &s, const std::string &name, const std::string &where, const std::string &D,
                           bool allow_links, bool is_main, bool multiline = false, const std::string &comment_lines = "") {
  TFile f;
  f.name = name;
  f.where = where;
  size_t k = s.weighted({70, is_main ? 10 : 6, allow_links ? (is_main ? 10 : 5) : 0, allow_links ? 5 : 0});
  f.kind = (FKind)k;
  if (f.kind == F_REGULAR || f.kind == F_LINK_REGULAR) {
    gen_tame_content(s, f, D, multiline, comment_lines);
    if (f.content.entries.empty() && f.kind == F_REGULAR && f.text.empty()) f.kind = F_EMPTY;
  }
  return f;
}

inline Tree gen_tree(Src &s, const Params &p, const TreeOpts &o) {
  Tree t;
  int nl = p.scheme == S_DEFAULT ? 3 : p.scheme == S_TWODIRS ? 2 : (o.two_or_three_layers ? 2 + (int)s.below(2) : 1 + (int)s.below(4));
  std::vector<std::string> dirs = layer_dirs(p, nl);
  static const char *lab3[3] = {"usr", "run", "etc"};
  const std::string D = DELIMS[p.di].d;
  const std::string sfx = p.sfx();
  const std::string name = p.eff_name();
  // candidate postfix directories: effective ones plus distractors
  std::vector<std::string> eff = p.eff_postfixes();
  std::vector<std::string> cand = eff;
  auto add = [&](const std::string &x) {
    if (std::find(cand.begin(), cand.end(), x) == cand.end()) cand.push_back(x);
  };
  if (!p.dropins_only()) {
    add(sfx + ".d");
    for (auto &x : p.glob_postfixes) add(x);
    for (auto &x : p.obj_postfixes) add(x);
  } else if (sfx != "")
    add(sfx + ".d");
  // drop-in name universe (chosen so that byte order, numeric order and locale order differ)
  // "+p", "-m" (and the dot file ".-d" below) sort before "." / between "." and "..": positions a reader that
  // skips "the first two directory entries" gets wrong
  std::vector<std::string> stems = {"10-a", "9-b", "100-c", "B", "a", "_x", "Z", "5", "+p", "-m"};
  std::vector<std::string> universe;
  for (auto &st : stems) universe.push_back(st + sfx);
  int budget = o.max_consulted;
  for (int li = 0; li < nl; li++) {
    TLayer L;
    L.label = p.scheme == S_DEFAULT ? lab3[li] : (p.scheme == S_TWODIRS ? (li ? "etc" : "dist") : "d" + std::to_string(li + 1));
    L.dir = dirs[(size_t)li];
    if (p.scheme == S_TWODIRS && p.dirarg_mode[li] != 0) L.dir_arg_missing = true;
    auto lsp = s.span();
    // main file
    if (!p.dropins_only() && !L.dir_arg_missing && s.chance(45)) {
      L.main.reset(new TFile(gen_file_node(s, name + sfx, L.label + "/" + name + sfx, D, o.allow_links, true, o.multiline_values, o.comment_lines)));
    }
    // distractor main-like files
    if (!L.dir_arg_missing && s.chance(15)) {
      std::string dn = sfx.empty() ? name + ".conf" : (s.chance(50) ? name : name + sfx + ".bak");
      for (auto &pf : cand)
        if (dn == name && !pf.empty() && pf[0] == '/') dn = name + sfx + ".bak";  // "<name>/" is a directory there
      // with an empty suffix the directory "<name>.d" etc. must not collide; plain files are fine
      if (!(p.dropins_only() && dn == name)) {
        TFile d = gen_file_node(s, dn, L.label + "/DISTRACTOR-" + dn, D, false, false);
        d.kind = F_REGULAR;
        if (d.text.empty()) d.text = "k1" + std::string(D == " " ? " " : D.substr(0, 1)) + "DISTRACTOR\n";
        L.distractors.push_back(d);
      }
    }
    // drop-in directories
    std::vector<std::string> used_names;  // distinct across postfix dirs within a layer
    for (auto &pf : cand) {
      TDir d;
      d.postfix = pf;
      bool effective = std::find(eff.begin(), eff.end(), pf) != eff.end();
      if (L.dir_arg_missing || !s.chance(effective ? 65 : 35)) {
        L.dropdirs.push_back(d);
        continue;
      }
      d.exists = true;
      for (;;) {
        auto fsp = s.span();
        if (!(budget > 0 && d.files.size() < 5 && s.chance(62))) break;
        std::string fn;
        size_t w = s.weighted({70, 8, 6, 6, 5, 5});
        switch (w) {
          case 0: fn = s.chance(60) ? universe[s.below(5)] : s.pick(universe); break;  // (namesakes across layers must stay frequent)
          case 1: fn = s.pick(stems); break;                      // without the suffix
          case 2: fn = s.pick(stems) + sfx + ".bak"; break;        // merely contains the suffix
          case 3: fn = sfx.empty() ? std::string(".hidden") : sfx; break;  // the suffix alone
          case 4: fn = (s.chance(50) ? ".h" : ".-d") + sfx; break;  // dot file
          default: fn = name + sfx; break;                          // the main file's own name
        }
        if (fn.empty() || fn == "." || fn == "..") continue;
        if (std::find(used_names.begin(), used_names.end(), fn) != used_names.end()) continue;
        used_names.push_back(fn);
        TFile f = gen_file_node(s, fn, L.label + "/" + pf + "/" + fn, D, o.allow_links, false, o.multiline_values, o.comment_lines);
        d.files.push_back(f);
        if (effective) budget--;
      }
      L.dropdirs.push_back(std::move(d));
    }
    t.layers.push_back(std::move(L));
  }
  return t;
}

// ---------------------------------------------------------------- lookup model
struct Consulted {
  TFile *file = nullptr;
  std::string rel;   // path relative to the scratch root (not normalised)
  bool is_dropin = false;
  bool masked = false;
  int layer = 0;
  std::string path(const std::string &root) const { return root + rel; }
};

inline bool qualifies(const std::string &n, const std::string &sfx) {
  return n.size() > sfx.size() && n.compare(n.size() - sfx.size(), sfx.size(), sfx) == 0;
}

inline std::vector<Consulted> consulted_files(Tree &t, const Params &p) {
  std::vector<Consulted> c;
  const std::string sfx = p.sfx(), name = p.eff_name();
  if (!p.dropins_only()) {
    for (int li = (int)t.layers.size() - 1; li >= 0; li--) {
      TLayer &L = t.layers[(size_t)li];
      if (L.main) {
        Consulted x;
        x.file = L.main.get();
        x.rel = L.dir + "/" + name + sfx;
        x.layer = li;
        c.push_back(x);
        break;
      }
    }
  }
  std::vector<std::string> eff = p.eff_postfixes();
  for (size_t li = 0; li < t.layers.size(); li++) {
    TLayer &L = t.layers[li];
    for (auto &pf : eff) {
      for (auto &d : L.dropdirs) {
        if (d.postfix != pf || !d.exists) continue;
        std::vector<TFile *> fs;
        for (auto &f : d.files)
          if (qualifies(f.name, sfx)) fs.push_back(&f);
        std::sort(fs.begin(), fs.end(), [](TFile *a, TFile *b) { return a->name < b->name; });
        for (TFile *f : fs) {
          Consulted x;
          x.file = f;
          x.rel = L.dir + "/" + name + pf + "/" + f->name;
          x.is_dropin = true;
          x.layer = (int)li;
          c.push_back(x);
        }
      }
    }
  }
  for (size_t i = 0; i < c.size(); i++) {
    if (!c[i].is_dropin) continue;
    for (size_t j = i + 1; j < c.size(); j++)
      if (c[j].file->name == c[i].file->name) c[i].masked = true;
  }
  return c;
}

// does an effective drop-in directory exist (suffix-less reads consult "." and ".." there)
inline bool pseudo_files_consulted(const Tree &t, const Params &p) {
  if (!p.sfx().empty()) return false;
  std::vector<std::string> eff = p.eff_postfixes();
  for (auto &L : t.layers)
    for (auto &d : L.dropdirs)
      if (d.exists && std::find(eff.begin(), eff.end(), d.postfix) != eff.end()) return true;
  return false;
}

inline Model file_model(const TFile &f) {
  if (f.kind == F_REGULAR || f.kind == F_LINK_REGULAR) return f.content;
  return Model();
}

// expected configuration: fold over the non-masked consulted files
inline Model expected_model(const std::vector<Consulted> &c) {
  Model r;
  bool first = true;
  for (auto &x : c) {
    if (x.masked) continue;
    if (first) {
      r = file_model(*x.file);
      first = false;
    } else
      r = merge_model(r, file_model(*x.file));
  }
  return r;
}

// ---------------------------------------------------------------- materialise
inline void put_file(const std::string &root, const std::string &relpath, const TFile &f, int &link_no) {
  std::string path = root + relpath;
  std::string body = f.has_override ? f.raw_override : f.text;
  switch (f.kind) {
    case F_REGULAR: write_file(path, body); break;
    case F_EMPTY: write_file(path, f.has_override ? f.raw_override : std::string()); break;
    case F_DEVNULL:
      if (symlink("/dev/null", path.c_str()) != 0) perror("symlink");
      break;
    case F_LINK_REGULAR: {
      mkdir_p(root + "/targets");
      std::string tgt = root + "/targets/t" + std::to_string(link_no++);
      write_file(tgt, body);
      f.link_target = tgt;
      if (symlink(tgt.c_str(), path.c_str()) != 0) perror("symlink");
      if (f.uid >= 0 || f.gid >= 0)
        if (chown(tgt.c_str(), f.uid >= 0 ? (uid_t)f.uid : (uid_t)-1, f.gid >= 0 ? (gid_t)f.gid : (gid_t)-1) != 0) perror("chown");
      break;
    }
    case F_DANGLING:
      if (symlink((root + "/targets/does-not-exist").c_str(), path.c_str()) != 0) perror("symlink");
      break;
  }
  if (f.uid >= 0 || f.gid >= 0)
    if (lchown(path.c_str(), f.uid >= 0 ? (uid_t)f.uid : (uid_t)-1, f.gid >= 0 ? (gid_t)f.gid : (gid_t)-1) != 0) perror("lchown");
}

inline void materialise(const Tree &t, const Params &p, const std::string &root) {
  int link_no = 0;
  const std::string sfx = p.sfx(), name = p.eff_name();
  for (auto &L : t.layers) {
    if (L.dir_arg_missing) continue;
    mkdir_p(root + L.dir);
    if (L.main) put_file(root, L.dir + "/" + name + sfx, *L.main, link_no);
    for (auto &d : L.distractors) put_file(root, L.dir + "/" + d.name, d, link_no);
    for (auto &d : L.dropdirs) {
      if (!d.exists) continue;
      std::string dd = L.dir + "/" + name + d.postfix;
      mkdir_p(root + dd);
      for (auto &f : d.files) put_file(root, dd + "/" + f.name, f, link_no);
    }
  }
}

inline void cleanup_tree(const std::string &root) { clear_dir(root); }

inline std::string describe(const Tree &t, const Params &p) {
  std::string r = "scheme=" + std::to_string(p.scheme) + (p.project_null ? " project=NULL" : " project=" + p.project) +
                  " name_mode=" + std::to_string(p.name_mode) + " suffix_mode=" + std::to_string(p.suffix_mode) + "(" +
                  p.sfx_word + ") confdirs_mode=" + std::to_string(p.confdirs_mode) + " D='" + esc(DELIMS[p.di].d) + "'";
  if (!p.obj_postfixes.empty()) {
    r += " CONFIG_DIRS=";
    for (auto &x : p.obj_postfixes) r += x + ":";
  }
  if (!p.glob_postfixes.empty()) {
    r += " global=";
    for (auto &x : p.glob_postfixes) r += x + ":";
  }
  if (p.scheme == S_TWODIRS) r += " dirargs=" + std::to_string(p.dirarg_mode[0]) + std::to_string(p.dirarg_mode[1]);
  r += " {";
  for (auto &L : t.layers) {
    r += " " + L.label + "[" + L.dir + "]:";
    if (L.dir_arg_missing) r += "(missing arg)";
    if (L.main) r += std::string(" main=") + FKIND_NAME[L.main->kind];
    for (auto &d : L.distractors) r += " distractor=" + d.name;
    for (auto &d : L.dropdirs) {
      if (!d.exists) continue;
      r += " " + d.postfix + "/(";
      for (auto &f : d.files) r += f.name + ":" + FKIND_NAME[f.kind] + (f.uid >= 0 || f.gid >= 0 ? "*" : "") + " ";
      r += ")";
    }
  }
  r += " }";
  return r;
}

inline uint64_t tree_shape(const Tree &t, const Params &p) {
  uint64_t h = fnv_u64((uint64_t)p.scheme * 100000 + (uint64_t)p.name_mode * 10000 + (uint64_t)p.suffix_mode * 1000 +
                           (uint64_t)p.confdirs_mode * 100 + (uint64_t)p.project_null * 10 + (uint64_t)p.di,
                       31);
  for (auto &x : p.obj_postfixes) h = fnv(x, h);
  for (auto &x : p.glob_postfixes) h = fnv(x, h);
  for (auto &L : t.layers) {
    h = fnv_u64(L.main ? 1 + (uint64_t)L.main->kind : 0, h);
    h = fnv_u64(L.dir_arg_missing, h);
    for (auto &d : L.dropdirs) {
      h = fnv(d.postfix, h);
      h = fnv_u64(d.exists, h);
      for (auto &f : d.files) {
        h = fnv(f.name, h);
        h = fnv_u64((uint64_t)f.kind, h);
      }
    }
  }
  return h;
}

// ---------------------------------------------------------------- reading a tree through the API
enum ReadMode { RM_CONFIG = 0, RM_CONFIG_CB, RM_DIRS, RM_DIRS_CB, RM_HIST, RM_HIST_CB };
static const char *const RM_NAME[6] = {"readConfig", "readConfigWithCallback", "readDirs", "readDirsWithCallback",
                                       "readDirsHistory", "readDirsHistoryWithCallback"};

struct CbCtx {
  std::vector<std::string> log;
  std::function<bool(const char *)> decide;  // default: accept
  const void *expect_data = nullptr;
  bool data_ok = true;
  bool null_data = false;  // register the callback with a NULL data pointer (a check need not have a context)
};
static CbCtx *g_cb_for_null_data = nullptr;

inline bool tree_callback(const char *filename, const void *data) {
  // data points to a pair {CbCtx*, cookie} - or is NULL, then the context is the registered global one
  if (data == nullptr) {
    CbCtx *cx = g_cb_for_null_data;
    if (!cx) return true;
    if (!cx->null_data) cx->data_ok = false;
    cx->log.push_back(filename ? filename : "<NULL>");
    return cx->decide ? cx->decide(filename) : true;
  }
  const void *const *pp = (const void *const *)data;
  CbCtx *cx = (CbCtx *)pp[0];
  if (cx->null_data) cx->data_ok = false;
  if (pp[1] != cx->expect_data) cx->data_ok = false;
  cx->log.push_back(filename ? filename : "<NULL>");
  return cx->decide ? cx->decide(filename) : true;
}

struct ReadResult {
  econf_err rc = ECONF_SUCCESS;
  econf_file *kf = nullptr;
  bool caller_object = false;   // kf is the (options) object the caller created itself
  econf_file **hist = nullptr;
  size_t hist_size = 0;
  bool hist_mode = false;
  std::string options;          // option string used
};

inline std::string join_dirs(const std::string &root, const Tree &t) {
  std::string r;
  for (size_t i = 0; i < t.layers.size(); i++) r += (i ? ":" : "") + root + t.layers[i].dir;
  return r;
}

// Reads the tree with the entry point `mode`. For RM_CONFIG* with scheme
// TWODIRS / EXPLICIT the directories are passed as PARSING_DIRS.  For RM_DIRS*
// and RM_HIST* the tree must have two layers.
inline ReadResult read_tree(const Tree &t, const Params &p, const std::string &root, ReadMode mode, CbCtx *cb,
                            bool force_parsing_dirs = false) {
  ReadResult r;
  CbCtx dummy_cb;
  if (!cb) cb = &dummy_cb;
  const std::string D = DELIMS[p.di].d, C = COMMENTS[p.ci];
  const void *cbdata_arr[2] = {cb, cb ? cb->expect_data : nullptr};
  const void *const *cbdata = cb->null_data ? nullptr : cbdata_arr;
  if (cb->null_data) g_cb_for_null_data = cb;
  // process-wide postfix list
  bool set_global = p.confdirs_mode == 2 || p.confdirs_mode == 3;
  if (set_global) {
    std::vector<const char *> l;
    for (auto &x : p.glob_postfixes) l.push_back(x.c_str());
    l.push_back(nullptr);
    econf_set_conf_dirs(l.data());
  }
  const char *name_arg = p.name_mode == 0 ? p.name.c_str() : (p.name_mode == 1 ? nullptr : "");
  const char *sfx_arg = p.suffix_arg();
  std::string sfx_copy = sfx_arg ? sfx_arg : "";
  if (sfx_arg) sfx_arg = sfx_copy.c_str();
  if (mode == RM_CONFIG || mode == RM_CONFIG_CB) {
    std::string opt;
    if (p.scheme == S_DEFAULT && !force_parsing_dirs)
      opt = "ROOT_PREFIX=" + root;
    else
      opt = "PARSING_DIRS=" + (p.parsing_dirs_override.empty() ? join_dirs(root, t) : p.parsing_dirs_override);
    if (p.confdirs_mode == 1 || p.confdirs_mode == 3) {
      opt += ";CONFIG_DIRS=";
      for (size_t i = 0; i < p.obj_postfixes.size(); i++) opt += (i ? ":" : "") + p.obj_postfixes[i];
    }
    if (p.join_option) opt += ";JOIN_SAME_ENTRIES=1";
    r.options = opt;
    econf_file *kf = nullptr;
    econf_err e = econf_newKeyFile_with_options(&kf, opt.c_str());
    if (e != ECONF_SUCCESS) {
      r.rc = e;
      r.kf = nullptr;
    } else {
      econf_file *mine = kf;
      const char *proj = p.project_null ? nullptr : p.project.c_str();
      if (p.warmup_failed_read) {
        const char *stale[2] = {"vfstale.d", nullptr};
        econf_set_conf_dirs(stale);
        // same project, sub-directory and name as the real read (the first read stores the default directories
        // derived from them in the object), but a suffix no file of the tree carries
        econf_err we = econf_readConfig(&kf, proj, p.usr_subdir.c_str(), name_arg, "vfnosuchsfx", D.c_str(), C.c_str());
        if (we == ECONF_SUCCESS || kf != mine) {
          // not the failed read that was intended: start again with a fresh object
          if (kf) econf_freeFile(kf);
          kf = nullptr;
          e = econf_newKeyFile_with_options(&kf, opt.c_str());
          mine = kf;
        }
        std::vector<const char *> l;
        if (set_global)
          for (auto &x : p.glob_postfixes) l.push_back(x.c_str());
        l.push_back(nullptr);
        econf_set_conf_dirs(l.data());
      }
      if (mode == RM_CONFIG)
        r.rc = econf_readConfig(&kf, proj, p.usr_subdir.c_str(), name_arg, sfx_arg, D.c_str(), C.c_str());
      else
        r.rc = econf_readConfigWithCallback(&kf, proj, p.usr_subdir.c_str(), name_arg, sfx_arg, D.c_str(), C.c_str(),
                                            tree_callback, cbdata);
      r.kf = kf;
      r.caller_object = kf == mine;
    }
  } else {
    std::string d0 = root + t.layers[0].dir, d1 = t.layers.size() > 1 ? root + t.layers[1].dir : std::string();
    const char *a0 = p.scheme == S_TWODIRS && p.dirarg_mode[0] == 1 ? nullptr : (p.scheme == S_TWODIRS && p.dirarg_mode[0] == 2 ? "" : d0.c_str());
    const char *a1 = p.scheme == S_TWODIRS && p.dirarg_mode[1] == 1 ? nullptr : (p.scheme == S_TWODIRS && p.dirarg_mode[1] == 2 ? "" : d1.c_str());
    econf_file *kf = (econf_file *)-1;
#pragma GCC diagnostic push
#pragma GCC diagnostic ignored "-Wdeprecated-declarations"
    if (mode == RM_DIRS) {
      r.rc = econf_readDirs(&kf, a0, a1, name_arg, sfx_arg, D.c_str(), C.c_str());
      r.kf = kf == (econf_file *)-1 ? nullptr : kf;
    } else if (mode == RM_DIRS_CB) {
      r.rc = econf_readDirsWithCallback(&kf, a0, a1, name_arg, sfx_arg, D.c_str(), C.c_str(), tree_callback, cbdata);
      r.kf = kf == (econf_file *)-1 ? nullptr : kf;
    } else {
      r.hist_mode = true;
      econf_file **h = (econf_file **)-1;
      size_t n = 5;  // (a caller's re-used variable: the history size is an output only)
      if (mode == RM_HIST)
        r.rc = econf_readDirsHistory(&h, &n, a0, a1, name_arg, sfx_arg, D.c_str(), C.c_str());
      else
        r.rc = econf_readDirsHistoryWithCallback(&h, &n, a0, a1, name_arg, sfx_arg, D.c_str(), C.c_str(), tree_callback, cbdata);
      r.hist = h;
      r.hist_size = (r.rc != ECONF_SUCCESS && n == 5) ? 0 : n;
    }
#pragma GCC diagnostic pop
  }
  if (set_global) {
    const char *none[1] = {nullptr};
    econf_set_conf_dirs(none);
  }
  return r;
}

inline void free_hist(ReadResult &r) {
  if (r.hist && r.hist != (econf_file **)-1) {
    for (size_t i = 0; i < r.hist_size; i++) econf_freeFile(r.hist[i]);
    free(r.hist);
  }
  r.hist = nullptr;
}

}  // namespace vf
