// gen_hist.hpp - small universes for call histories (DESIGN 5.5)
#pragma once
#include <string>
#include <vector>

#include "engine.hpp"
#include "gen_text.hpp"

namespace vf {

struct SecArg {
  const char *arg;       // what is passed to the API (may be NULL)
  const char *norm;      // the section it denotes ("" = group-less)
};
// ("[]" is the bracketed spelling of the empty name: group-less as well)
static const SecArg SEC_ARGS[] = {{nullptr, ""},   {"", ""},       {"A", "A"},         {"[A]", "A"},
                                  {"B", "B"},      {"[B]", "B"},   {"Sec C", "Sec C"}, {"[Sec C]", "Sec C"}, {"[]", ""},
                                  // two different names with the same djb2 hash (33*'a'+'b' == 33*'b'+'A')
                                  {"ab", "ab"},    {"bA", "bA"},
                                  // a name that ends in a bracket without starting with one, and its bracketed spelling
                                  {"disk[0]", "disk[0]"}, {"[disk[0]]", "disk[0]"}};
static const uint32_t N_SEC_ARGS = sizeof SEC_ARGS / sizeof SEC_ARGS[0];

inline const std::vector<std::string> &hist_keys() {
  // ("_none_" is an ordinary key name for a caller; it happens to be the library's internal placeholder)
  static const std::vector<std::string> k = {"k1", "k2", "k3", "k4", "k5", "k6",
                                             "a-rather-long-key-name-that-goes-on-and-on-0123456789",
                                             "schl\xc3\xbcssel", "_none_"};
  return k;
}

// a value of DESIGN 5.4 for delimiter tag d and comment tag c (setter-created entries: not quoted)
inline std::string gen_safe_value(Src &s, char d, char c, bool allow_multiline = true) {
  std::string forb_val(1, c);
  Alphabet a0 = make_alphabet(forb_val);
  Alphabet ac = make_alphabet(forb_val + std::string(1, d));
  std::string v;
  size_t k = s.weighted({55, 15, allow_multiline ? 30 : 0, 3});
  if (k == 1) return "";
  if (k == 3) return "_none_";  // ordinary text for every getter (it happens to be the library's internal placeholder)
  int n = 1 + (int)s.below(12);
  v = gen_text(s, a0, n, "\"");
  if (k == 2) {
    if (s.chance(20)) v = "";  // empty first line + continuation
    int m = 1 + (int)s.below(3);
    for (int i = 0; i < m; i++) {
      std::string body = d == ' ' ? gen_token(s, ac, 1 + (int)s.below(8), "[") : gen_text(s, ac, 1 + (int)s.below(10), "[");
      v += "\n" + gen_blanks(s, 1, 3) + body;
    }
  }
  return v;
}

}  // namespace vf
