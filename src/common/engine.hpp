// engine.hpp - the part of the harness every property shares.
//
// A *case* is a finite sequence of 32-bit "choices".  rapidcheck generates and
// shrinks that sequence (engine.cpp); libFuzzer can supply it as bytes
// (fuzz_main.cpp).  A property decodes the sequence into a structured input
// through `Src` (0 is always the simplest alternative, an exhausted source
// yields 0), runs the library and checks its oracle.  Because the case *is* the
// choice sequence, serialisation, replay, hashing and shrinking are generic.
//
// No rapidcheck header is needed to write a property (fast compiles).
#pragma once
#include <cstdint>
#include <cstdio>
#include <cstdlib>
#include <cstring>
#include <functional>
#include <map>
#include <set>
#include <sstream>
#include <string>
#include <vector>

namespace vf {

// ---------------------------------------------------------------- choices
// spans: [begin,end) index ranges of choices that encode one logical element
// (a line, a file, an operation); the shrinker tries to delete whole spans.
extern std::vector<std::pair<uint32_t, uint32_t>> g_spans;

struct Src {
  const uint32_t *d;
  size_t n;
  size_t i = 0;
  struct Span {
    Src &s;
    size_t b;
    explicit Span(Src &s_) : s(s_), b(s_.i) {}
    ~Span() {
      if (s.i > b) g_spans.push_back({(uint32_t)b, (uint32_t)s.i});
    }
  };
  Span span() { return Span(*this); }
  Src(const uint32_t *d_, size_t n_) : d(d_), n(n_) {}
  explicit Src(const std::vector<uint32_t> &v) : d(v.data()), n(v.size()) {}
  uint32_t raw() {
    uint32_t v = i < n ? d[i] : 0;
    i++;
    return v;
  }
  bool exhausted() const { return i >= n; }
  size_t used() const { return i; }
  // uniform-ish in [0, k)
  uint32_t below(uint32_t k) { return k <= 1 ? (raw(), 0) : raw() % k; }
  int range(int lo, int hi) { return lo + (int)below((uint32_t)(hi - lo + 1)); }
  // true with probability pct/100; 0 -> false (false is the simple side)
  bool chance(int pct) { return (int)(raw() % 100) >= 100 - pct; }
  // index by weights; put the simplest alternative first
  size_t weighted(std::initializer_list<int> w) {
    int tot = 0;
    for (int x : w) tot += x;
    int r = (int)below((uint32_t)tot);
    size_t k = 0;
    for (int x : w) {
      if (r < x) return k;
      r -= x;
      k++;
    }
    return 0;
  }
  template <class T> const T &pick(const std::vector<T> &v) { return v[below((uint32_t)v.size())]; }
  uint64_t raw64() {
    uint64_t a = raw();
    return (a << 32) | raw();
  }
};

// ---------------------------------------------------------------- failures
struct Fail {
  std::string symptom;  // short stable tag, e.g. "value-mismatch"
  std::string detail;   // free text
};

#define VF_FAIL(symptom, msg)                         \
  do {                                                \
    std::ostringstream vf_os_;                        \
    vf_os_ << msg;                                    \
    throw ::vf::Fail{(symptom), vf_os_.str()};        \
  } while (0)

#define VF_CHECK(cond, symptom, msg)                  \
  do {                                                \
    if (!(cond)) VF_FAIL(symptom, msg);               \
  } while (0)

inline uint64_t fnv(const void *p, size_t n, uint64_t h = 1469598103934665603ull) {
  const unsigned char *c = (const unsigned char *)p;
  for (size_t i = 0; i < n; i++) {
    h ^= c[i];
    h *= 1099511628211ull;
  }
  return h;
}
inline uint64_t fnv(const std::string &s, uint64_t h = 1469598103934665603ull) { return fnv(s.data(), s.size(), h); }
// (without this overload a (const char*, uint64_t) call would bind to (const void*, size_t n, h = default))
inline uint64_t fnv(const char *s, uint64_t h) { return fnv(s, strlen(s), h); }
inline uint64_t fnv_u64(uint64_t v, uint64_t h) { return fnv(&v, sizeof v, h); }

// ---------------------------------------------------------------- per-case record
// Everything a case reports about itself; committed to the run statistics by
// the engine after the case finished (also across a fork boundary).
struct CaseRec {
  std::vector<std::string> classes;  // class labels this case belongs to
  bool nontrivial = false;
  uint64_t shape_hash = 0;           // distinctness key (stated per property)
  std::string desc;                  // human-readable rendering
  uint64_t evals = 1;                // how many oracle evaluations this case made
  std::vector<std::string> known;    // known-finding keys this case ran into
  uint64_t digest = 0;               // hash of everything the case observed (heap-fill differential, C20)
  void mix(uint64_t v) { digest = fnv_u64(v, digest ? digest : 1469598103934665603ull); }
  void mix(const std::string &s) { digest = fnv(s, digest ? digest : 1469598103934665603ull); }
  void tag(const std::string &c) {  // a class is counted once per case (the evidence reports shares of cases)
    for (auto &x : classes)
      if (x == c) return;
    classes.push_back(c);
  }
  void clear() { *this = CaseRec(); }
};
extern CaseRec g_case;

// printable rendering of arbitrary bytes (for descriptions / samples)
std::string esc(const std::string &s);
std::string json_str(const std::string &s);

// ---------------------------------------------------------------- known findings
// Keys of open findings listed in KNOWN_FINDINGS.txt for this property
// ("finding:" lines only; "fixed:" lines suppress nothing).
bool known_open(const std::string &key);

// ---------------------------------------------------------------- harness description
struct Harness {
  const char *property_id;
  // property body: decode, execute, check; throws Fail on violation
  std::function<void(Src &)> run;
  // choices available at rapidcheck size s: uniform in [0, base + s*per_size]
  int base = 16;
  int per_size = 12;
  // run every case in a forked child (C20; also used for crash shrinking)
  bool always_isolate = false;
  // evaluations the shrinker may spend (expensive cases: threads, subprocesses)
  uint64_t shrink_budget = 20000;
  // optional per-process setup / teardown (scratch dir etc.)
  std::function<void()> setup;
  std::function<void()> teardown;
  // optional: extra command line modes (e.g. exhaustive drivers); return -1 if
  // the mode is not handled
  std::function<int(const std::string &mode, int argc, char **argv)> extra;
};

int engine_main(int argc, char **argv, const Harness &h);

// extra statistics the harness may add at the end (e.g. exhaustive sub-run counts)
void stats_add(const std::string &cls, uint64_t n);
void stats_note(const std::string &key, const std::string &json_value);
void stats_commit_case();  // used by exhaustive drivers that bypass rapidcheck
// a failing case of a mode driver: written as found.case with a line
// "mode=<mode and arguments>"; --replay runs Harness::extra with them again
void write_mode_case(const std::string &mode_and_args, const std::string &symptom, const std::string &detail);

}  // namespace vf
