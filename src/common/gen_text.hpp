// gen_text.hpp - generator for the conventional file grammar of DESIGN.md 5.1.
// A file is generated as an AST and printed; the AST is the oracle.
#pragma once
#include <optional>
#include <string>
#include <vector>

#include "engine.hpp"
#include "model.hpp"

namespace vf {

enum DelimClass { DC_NONBLANK = 0, DC_BLANK = 1, DC_MIXED = 2, DC_NONE = 3 };
struct DelimSet {
  const char *d;
  DelimClass cls;
};
static const DelimSet DELIMS[7] = {{"=", DC_NONBLANK}, {":=", DC_NONBLANK}, {" ", DC_BLANK}, {" \t", DC_BLANK},
                                   {" =", DC_MIXED},   {"\t =", DC_MIXED},  {"", DC_NONE}};
static const char *const COMMENTS[3] = {"#", ";", "#;"};
static const char *const CLASS_NAME[4] = {"nonblank", "blank", "mixed", "none"};

enum LineKind { L_EMPTY = 0, L_BLANKONLY, L_COMMENT, L_HEADER, L_ENTRY, L_CONT, L_BARE };

struct PLine {
  LineKind kind;
  std::string text;         // physical line without the newline
  int entry = -1;           // index into entries for ENTRY/CONT/BARE
  bool indented = false;    // leading blanks
  bool has_trail = false;   // carries a trailing comment
  std::string ctext;        // COMMENT: text after the comment char; else trailing comment text
  int sepform = 0;          // ENTRY: 0 tight, 1 blanks around, 2 blank-only separator
  bool quoted = false;
};

struct AEntry {
  std::string section, key;
  std::string raw_value;                  // expected string-getter result (NULL == "")
  std::vector<std::string> lines_trimmed; // expected ext values for unquoted entries
  bool quoted = false;                    // read quoted (outer pair stripped)
  bool verbatim_quote = false;            // starts with " but is kept verbatim
  bool empty_no_blank = false;            // printed as `k=` with nothing after the delimiter
  int first_line = 0, last_line = 0;      // 1-based physical lines
  std::vector<std::string> comments_since_prev;   // texts of all comment lines since the previous entry
  std::vector<std::string> block_before;          // the block directly preceding the entry
  std::vector<std::optional<std::string>> trail;  // trailing comment per physical line
};

struct GFile {
  int di = 0, ci = 0;
  std::string D, C;
  DelimClass cls = DC_NONBLANK;
  std::vector<PLine> lines;
  bool final_nl = true;
  std::vector<AEntry> entries;
  std::vector<std::string> declared;

  std::string text() const {
    std::string t;
    for (size_t i = 0; i < lines.size(); i++) {
      t += lines[i].text;
      if (i + 1 < lines.size() || final_nl) t += "\n";
    }
    return t;
  }
  Model model() const {
    Model m;
    m.declared = declared;
    for (auto &e : entries) m.entries.push_back({e.section, e.key, e.raw_value});
    return m;
  }
  // structural skeleton (random text excluded) for distinctness
  uint64_t skeleton() const {
    uint64_t h = fnv_u64((uint64_t)di * 8 + (uint64_t)ci, 1469598103934665603ull);
    for (auto &l : lines) {
      uint64_t v = (uint64_t)l.kind | ((uint64_t)l.indented << 4) | ((uint64_t)l.has_trail << 5) |
                   ((uint64_t)l.sepform << 6) | ((uint64_t)l.quoted << 9);
      h = fnv_u64(v, h);
    }
    h = fnv_u64(final_nl, h);
    return h;
  }
  bool has_kind(LineKind k) const {
    for (auto &l : lines)
      if (l.kind == k) return true;
    return false;
  }
};

struct GOpts {
  bool cont = true;        // continuation lines
  bool comments = true;    // tame comment lines
  bool quoted = true;
  bool verbatim_quote = true;
  bool trail = true;       // trailing comments
  bool bare = false;       // bare-key extension
  bool blankonly = true;
  bool headers = true;
  bool empty_values = true;
  bool long_fields = true;
  bool indent_entries = true;
  bool header_trail = true;  // trailing comments on header lines
  bool indent_comments = true;
  bool cont_after_quoted = false;  // continuation lines also after a "quoted" first line (C02, C17)
  bool wild_trail = false;         // trailing comments may contain further comment characters (memory-safety checks only)
  bool indent_headers = true;
  int max_lines = 40;
  int fixed_di = -1, fixed_ci = -1;
  std::vector<int> allowed_di;  // empty = all
  // value text must additionally avoid these characters (C07 uses it)
  std::string extra_forbidden_value;
  std::string extra_forbidden_key;
  std::string extra_forbidden_cont;   // continuation text
  bool cont_single_token = false;     // continuation body is one token without blanks
  bool multiline_no_trail = false;    // an entry with continuation lines carries no trailing comment at all
  std::string custom_D, custom_C;     // override the table (single characters for C07)
  bool comment_chars_in_comments = false;  // whole-line comments whose text contains further comment characters
};

// ---------------------------------------------------------------- text atoms
struct Alphabet {
  std::vector<std::string> common, punct, utf;
};

inline Alphabet make_alphabet(const std::string &forbidden) {
  Alphabet a;
  auto ok = [&](char c) { return forbidden.find(c) == std::string::npos; };
  for (char c = 'a'; c <= 'z'; c++)
    if (ok(c)) a.common.push_back(std::string(1, c));
  for (char c = '0'; c <= '9'; c++)
    if (ok(c)) a.common.push_back(std::string(1, c));
  for (char c = 'A'; c <= 'Z'; c++)
    if (ok(c)) a.common.push_back(std::string(1, c));
  for (int c = 0x21; c <= 0x7e; c++) {
    if (isalnum(c)) continue;
    if (ok((char)c)) a.punct.push_back(std::string(1, (char)c));
  }
  a.utf = {"\xc3\xa9", "\xc3\xbc", "\xc3\x9f", "\xd0\x96"};
  return a;
}

inline std::string gen_atom(Src &s, const Alphabet &a) {
  size_t w = s.weighted({70, 22, 8});
  if (w == 1 && !a.punct.empty()) return s.pick(a.punct);
  if (w == 2) return s.pick(a.utf);
  return a.common.empty() ? std::string("x") : s.pick(a.common);
}

inline int gen_len(Src &s, int lo, bool long_fields) {
  // 0 -> lo; mostly short; rare long tail
  size_t w = s.weighted({60, 35, long_fields ? 5 : 0});
  if (w == 0) return lo + (int)s.below(4);
  if (w == 1) return lo + (int)s.below(24 - lo + 1);
  return 25 + (int)s.below(276);
}

// token of n atoms without blanks; `first_forbidden` lists characters the first atom must avoid
inline std::string gen_token(Src &s, const Alphabet &a, int n, const std::string &first_forbidden = "") {
  std::string t;
  for (int i = 0; i < n; i++) {
    std::string at = gen_atom(s, a);
    if (i == 0 && at.size() == 1 && first_forbidden.find(at[0]) != std::string::npos) at = "x";
    t += at;
  }
  return t;
}

// text of n atoms with inner blanks allowed (never at the ends)
inline std::string gen_text(Src &s, const Alphabet &a, int n, const std::string &first_forbidden = "",
                            const std::string &last_forbidden = "") {
  std::string t;
  for (int i = 0; i < n; i++) {
    bool inner = i > 0 && i + 1 < n;
    if (inner && s.chance(15)) {
      t += s.chance(25) ? '\t' : ' ';
      continue;
    }
    std::string at = gen_atom(s, a);
    if (i == 0 && at.size() == 1 && first_forbidden.find(at[0]) != std::string::npos) at = "x";
    if (i + 1 == n && at.size() == 1 && last_forbidden.find(at[0]) != std::string::npos) at = "y";
    t += at;
  }
  return t;
}

inline std::string gen_blanks(Src &s, int lo, int hi, const std::string &from = " \t") {
  int n = lo + (int)s.below((uint32_t)(hi - lo + 1));
  std::string b;
  for (int i = 0; i < n; i++) b += from[s.below((uint32_t)from.size())];
  return b;
}

inline std::string trim_blanks(const std::string &x) {
  size_t a = 0, b = x.size();
  while (a < b && (x[a] == ' ' || x[a] == '\t')) a++;
  while (b > a && (x[b - 1] == ' ' || x[b - 1] == '\t')) b--;
  return x.substr(a, b - a);
}

// ---------------------------------------------------------------- the generator
inline GFile gen_file(Src &s, const GOpts &o) {
  GFile f;
  if (o.fixed_di >= 0)
    f.di = o.fixed_di;
  else if (!o.allowed_di.empty())
    f.di = o.allowed_di[s.below((uint32_t)o.allowed_di.size())];
  else
    f.di = (int)s.below(7);
  f.ci = o.fixed_ci >= 0 ? o.fixed_ci : (int)s.below(3);
  f.D = DELIMS[f.di].d;
  f.C = COMMENTS[f.ci];
  f.cls = DELIMS[f.di].cls;
  if (!o.custom_C.empty()) f.C = o.custom_C;
  if (!o.custom_D.empty()) {
    f.D = o.custom_D;
    bool b = false, nb = false;
    for (char c : f.D) (c == ' ' || c == '\t' ? b : nb) = true;
    f.cls = b && nb ? DC_MIXED : b ? DC_BLANK : DC_NONBLANK;
  }
  const std::string &D = f.D, &C = f.C;
  std::string dblank, dnon;
  for (char c : D) (c == ' ' || c == '\t' ? dblank : dnon) += c;

  // alphabets
  Alphabet a_key = make_alphabet(D + C + "\"" + o.extra_forbidden_key);          // no blank by construction
  Alphabet a_nkey = make_alphabet(C);                                            // class NONE keys
  Alphabet a_sec = make_alphabet(C + "[]\"");
  Alphabet a_val = make_alphabet(C + o.extra_forbidden_value);                   // plain value
  Alphabet a_q = make_alphabet("\"");                                            // inside quotes: anything but the quote at ends (inner quotes added explicitly)
  Alphabet a_cont = make_alphabet(D + C + o.extra_forbidden_value + o.extra_forbidden_cont);  // continuation text
  Alphabet a_ctext = make_alphabet(C);                                           // tame comment text
  Alphabet a_ttext = make_alphabet(C + "\"");                                    // trailing comment text

  std::vector<std::string> keypool, secpool;
  std::string cur_sec;
  std::vector<std::string> pending_comments, last_block;
  bool prev_entryish = false;  // previous physical line is ENTRY/CONT (or BARE)
  int nlines = 0;
  const bool can_cont = o.cont && (f.cls == DC_NONBLANK || f.cls == DC_BLANK);

  auto add_line = [&](PLine l) {
    f.lines.push_back(std::move(l));
    nlines++;
  };

  // now and then a file with many different sections (a group list has growth steps of its own)
  const bool many_sections = o.headers && s.chance(4);
  const int line_limit = many_sections ? std::max(o.max_lines, 36) : o.max_lines;
  for (;;) {
    auto line_span = s.span();
    if (!(nlines < line_limit && s.chance(many_sections ? 96 : 88))) break;
    // choose kind; order: simplest first
    bool prev_comment = !f.lines.empty() && f.lines.back().kind == L_COMMENT;
    size_t k = s.weighted({40, 8, o.comments ? (prev_comment ? 45 : 14) : 0, o.headers ? (many_sections ? 60 : 12) : 0, (o.blankonly && f.cls != DC_NONE && !prev_entryish) ? 5 : 0,
                           (o.bare && f.cls != DC_NONE && !prev_entryish) ? 6 : 0});
    if (k == 0) {
      // ---------------- ENTRY
      AEntry e;
      e.section = cur_sec;
      PLine l;
      l.kind = L_ENTRY;
      std::string ind = o.indent_entries && s.chance(20) ? gen_blanks(s, 1, 3) : "";
      l.indented = !ind.empty();
      if (f.cls == DC_NONE) {
        if (!keypool.empty() && s.chance(35))
          e.key = s.pick(keypool);
        else {
          e.key = gen_text(s, a_nkey, gen_len(s, 1, o.long_fields), "[");
          keypool.push_back(e.key);
        }
        l.text = ind + e.key + (s.chance(15) ? gen_blanks(s, 1, 2) : "");
        e.raw_value = "";
        e.lines_trimmed = {};
      } else {
        if (!keypool.empty() && s.chance(35))
          e.key = s.pick(keypool);
        else {
          e.key = gen_token(s, a_key, gen_len(s, 1, o.long_fields), "[");
          keypool.push_back(e.key);
        }
        // value
        std::string vtext;       // as printed
        size_t vk = s.weighted({55, o.empty_values ? 12 : 0, o.quoted ? 25 : 0, (o.quoted && o.verbatim_quote) ? 4 : 0});
        bool force_explicit = false;
        if (vk == 0) {
          int n = gen_len(s, 1, o.long_fields);
          e.raw_value = gen_text(s, a_val, n, "\"");
          vtext = e.raw_value;
          if (f.cls == DC_MIXED && dnon.find(e.raw_value[0]) != std::string::npos) force_explicit = true;
        } else if (vk == 1) {
          e.raw_value = "";
          vtext = "";
        } else if (vk == 2) {
          // quoted: any text incl. outer blanks, comment and delimiter chars; inner quotes allowed
          int n = gen_len(s, 0, o.long_fields);
          std::string t;
          for (int i = 0; i < n; i++) {
            size_t w = s.weighted({70, 12, 8, 5, 5});
            if (w == 0)
              t += gen_atom(s, a_q);
            else if (w == 1)
              t += s.chance(30) ? '\t' : ' ';
            else if (w == 2)
              t += C[s.below((uint32_t)C.size())];
            else if (w == 3)
              t += D.empty() ? std::string("=") : std::string(1, D[s.below((uint32_t)D.size())]);
            else if (i > 0 && i + 1 < n)
              t += '"';
            else
              t += 'q';
          }
          e.raw_value = t;
          e.quoted = true;
          l.quoted = true;
          vtext = "\"" + t + "\"";
        } else {
          // starts with a quote, does not end with one: kept verbatim. No comment chars
          // (a single quote before a comment char makes the rest a trailing comment).
          int n = gen_len(s, 0, false);
          std::string t = n ? gen_text(s, make_alphabet(C + "\""), n) : "";
          e.raw_value = "\"" + t;
          e.verbatim_quote = true;
          vtext = e.raw_value;
        }
        // separator
        std::string sep;
        if (f.cls == DC_NONBLANK) {
          char d = D[s.below((uint32_t)D.size())];
          l.sepform = s.chance(45) ? 1 : 0;
          std::string b1 = l.sepform ? gen_blanks(s, 0, 2) : "", b2 = l.sepform ? gen_blanks(s, 0, 2) : "";
          if (vtext.empty()) {
            if (b2.empty()) e.empty_no_blank = true;
          }
          sep = b1 + d + b2;
        } else if (f.cls == DC_BLANK) {
          l.sepform = 2;
          sep = gen_blanks(s, 1, 3, dblank);
        } else {  // MIXED
          if (force_explicit || s.chance(50)) {
            char d = dnon[s.below((uint32_t)dnon.size())];
            l.sepform = 1;
            sep = gen_blanks(s, 0, 2) + d + gen_blanks(s, 0, 2);
          } else {
            l.sepform = 2;
            sep = gen_blanks(s, 1, 3, dblank);
          }
        }
        l.text = ind + e.key + sep + vtext;
        // blanks after the value
        if (s.chance(15)) l.text += gen_blanks(s, 1, 2, f.cls == DC_BLANK ? dblank : " \t");
        e.lines_trimmed = {e.quoted ? trim_blanks(e.raw_value) : e.raw_value};
        // trailing comment
        if (o.trail && s.chance(22)) {
          char c = C[s.below((uint32_t)C.size())];
          std::string tt = gen_text(s, a_ttext, gen_len(s, 0, o.long_fields));
          if (o.wild_trail && s.chance(40)) tt += std::string(" ") + C[s.below((uint32_t)C.size())] + " " + gen_text(s, a_ttext, gen_len(s, 0, false));
          std::string lead = s.chance(50) ? " " : "";
          // between value and comment: blanks (from D in class BLANK)
          std::string gap = gen_blanks(s, 0, 2, f.cls == DC_BLANK ? dblank : " \t");
          // an empty plain value directly followed by the comment char is fine; keep as is
          l.text += gap + c + lead + tt;
          l.has_trail = true;
          l.ctext = lead + tt;
          e.trail.push_back(lead + tt);
        } else
          e.trail.push_back(std::nullopt);
      }
      if (f.cls == DC_NONE) {
        // a key of a delimiter-less file may be followed by a comment too (and still has no value)
        if (o.trail && e.key.find('"') == std::string::npos && s.chance(20)) {
          char c = C[s.below((uint32_t)C.size())];
          std::string tt = gen_text(s, a_ttext, gen_len(s, 0, o.long_fields));
          std::string lead = s.chance(50) ? " " : "";
          l.text += gen_blanks(s, 0, 2) + c + lead + tt;
          l.has_trail = true;
          l.ctext = lead + tt;
          e.trail.push_back(lead + tt);
        } else
          e.trail.push_back(std::nullopt);
      }
      e.first_line = e.last_line = nlines + 1;
      e.comments_since_prev = pending_comments;
      e.block_before = last_block;
      pending_comments.clear();
      last_block.clear();
      l.entry = (int)f.entries.size();
      add_line(l);
      prev_entryish = true;
      // ---------------- continuation lines
      if (can_cont && f.cls != DC_NONE && (!e.quoted || o.cont_after_quoted) && !e.verbatim_quote && !(o.multiline_no_trail && l.has_trail)) {
        for (;;) {
          auto cont_span = s.span();
          if (!(nlines < o.max_lines && s.chance(18))) break;
          PLine c;
          c.kind = L_CONT;
          c.indented = true;
          c.entry = l.entry;
          std::string ind2 = gen_blanks(s, 1, 3);
          std::string body;
          if (f.cls == DC_BLANK || o.cont_single_token)
            body = gen_token(s, a_cont, gen_len(s, 1, o.long_fields), "[");
          else
            body = gen_text(s, a_cont, gen_len(s, 1, o.long_fields), "[");
          std::string stored = ind2 + body;
          c.text = stored;
          if (f.cls == DC_NONBLANK && !o.cont_single_token && s.chance(12)) {
            std::string tb = gen_blanks(s, 1, 2);
            c.text += tb;
            stored += tb;
          }
          if (f.cls == DC_NONBLANK && o.trail && !o.multiline_no_trail && s.chance(30)) {
            char cc = C[s.below((uint32_t)C.size())];
            std::string gap = gen_blanks(s, 0, 2);
            std::string tt = gen_text(s, a_ttext, gen_len(s, 0, false));
            c.text += gap + cc + tt;
            stored += gap;
            c.has_trail = true;
            c.ctext = tt;
            e.trail.push_back(tt);
          } else
            e.trail.push_back(std::nullopt);
          e.raw_value += "\n" + stored;
          e.lines_trimmed.push_back(trim_blanks(stored));
          e.last_line = nlines + 1;
          add_line(c);
        }
      }
      f.entries.push_back(e);
    } else if (k == 1) {
      PLine l;
      l.kind = L_EMPTY;
      add_line(l);
      prev_entryish = false;
      last_block.clear();
    } else if (k == 2) {
      PLine l;
      l.kind = L_COMMENT;
      std::string ind = (o.indent_comments && !prev_entryish && f.cls != DC_NONE && s.chance(25)) ? gen_blanks(s, 1, 3) : "";
      l.indented = !ind.empty();
      char c = C[s.below((uint32_t)C.size())];
      l.ctext = gen_text(s, a_ctext, gen_len(s, 0, o.long_fields));
      // (the text of a comment line may contain comment characters again - also the one the line starts with)
      if (o.comment_chars_in_comments && s.chance(30))
        l.ctext += std::string(" ") + (s.chance(50) ? c : C[s.below((uint32_t)C.size())]) + " " + gen_text(s, a_ctext, gen_len(s, 0, false));
      if (s.chance(50)) l.ctext = " " + l.ctext;
      l.text = ind + c + l.ctext;
      pending_comments.push_back(l.ctext);
      last_block.push_back(l.ctext);
      add_line(l);
      prev_entryish = false;
    } else if (k == 3) {
      PLine l;
      l.kind = L_HEADER;
      std::string name;
      if (!secpool.empty() && s.chance(many_sections ? 8 : 50))
        name = s.pick(secpool);
      else {
        name = gen_text(s, a_sec, gen_len(s, 1, o.long_fields));
        if (name == "_none_") name = "none";
        secpool.push_back(name);
      }
      std::string ind = o.indent_headers && s.chance(15) ? gen_blanks(s, 1, 2) : "";
      l.indented = !ind.empty();
      l.text = ind + "[" + name + "]" + (s.chance(15) ? gen_blanks(s, 1, 2) : "");
      if (o.trail && o.header_trail && s.chance(8)) {
        char c = C[s.below((uint32_t)C.size())];
        std::string tt = gen_text(s, a_ttext, gen_len(s, 0, false));
        l.text += std::string(" ") + c + tt;
        l.has_trail = true;
        l.ctext = tt;
      }
      cur_sec = name;
      bool known = false;
      for (auto &d : f.declared) known = known || d == name;
      if (!known) f.declared.push_back(name);
      add_line(l);
      prev_entryish = false;
      last_block.clear();
    } else if (k == 4) {
      PLine l;
      l.kind = L_BLANKONLY;
      l.text = gen_blanks(s, 1, 4);
      l.indented = true;
      add_line(l);
      prev_entryish = false;
      last_block.clear();
    } else {
      // BARE key (extension): no separator at all
      AEntry e;
      e.section = cur_sec;
      PLine l;
      l.kind = L_BARE;
      if (!keypool.empty() && s.chance(35))
        e.key = s.pick(keypool);
      else {
        e.key = gen_token(s, a_key, gen_len(s, 1, false), "[");
        keypool.push_back(e.key);
      }
      std::string ind = s.chance(20) ? gen_blanks(s, 1, 2) : "";
      l.indented = !ind.empty();
      // (a bare key followed by two or more blanks is a MISSING_DELIMITER error under a non-blank delimiter set;
      // one blank is accepted - the extension stays on the accepted side)
      l.text = ind + e.key + (s.chance(20) ? gen_blanks(s, 1, f.cls == DC_NONBLANK ? 1 : 2, f.cls == DC_BLANK ? dblank : " \t") : "");
      e.raw_value = "";
      e.first_line = e.last_line = nlines + 1;
      e.trail.push_back(std::nullopt);
      e.comments_since_prev = pending_comments;
      e.block_before = last_block;
      pending_comments.clear();
      last_block.clear();
      l.entry = (int)f.entries.size();
      f.entries.push_back(e);
      add_line(l);
      prev_entryish = true;
    }
  }
  f.final_nl = f.lines.empty() ? true : !s.chance(20);
  return f;
}

inline std::string describe(const GFile &f) {
  return std::string("D='") + esc(f.D) + "' C='" + f.C + "' file='" + esc(f.text()) + "'";
}

// classes every text property reports
inline void tag_file_classes(const GFile &f) {
  g_case.tag(std::string("delim_") + CLASS_NAME[f.cls]);
  bool q = false, tr = false, ct = false, dup = false, reopen = false, keyless = false, emptyv = false, gl = false,
       sec = false;
  for (auto &l : f.lines) {
    q = q || l.quoted;
    tr = tr || l.has_trail;
    ct = ct || l.kind == L_CONT;
  }
  for (size_t i = 0; i < f.entries.size(); i++) {
    auto &e = f.entries[i];
    if (e.raw_value.empty()) emptyv = true;
    (e.section.empty() ? gl : sec) = true;
    for (size_t j = 0; j < i; j++)
      if (f.entries[j].section == e.section && f.entries[j].key == e.key) dup = true;
  }
  // re-opened section: header for an already declared name appears again after another header
  {
    std::vector<std::string> seen;
    std::string cur;
    for (auto &l : f.lines)
      if (l.kind == L_HEADER) {
        size_t a = l.text.find('['), b = l.text.find(']');
        std::string n = l.text.substr(a + 1, b - a - 1);
        for (auto &x : seen)
          if (x == n && n != cur) reopen = true;
        seen.push_back(n);
        cur = n;
      }
  }
  for (auto &d : f.declared) {
    bool has = false;
    for (auto &e : f.entries) has = has || e.section == d;
    if (!has) keyless = true;
  }
  if (f.declared.size() >= 8) g_case.tag("eight_or_more_sections");
  if (q) g_case.tag("quoted");
  if (tr) g_case.tag("trailing_comment");
  if (ct) g_case.tag("continuation");
  if (dup) g_case.tag("duplicate_key");
  if (reopen) g_case.tag("reopened_section");
  if (keyless) g_case.tag("keyless_section");
  if (emptyv) g_case.tag("empty_value");
  if (!f.final_nl) g_case.tag("no_final_newline");
  if (gl && sec) g_case.tag("groupless_and_sections");
}

}  // namespace vf
