// C12 - all layered-read entry points agree with each other and with the history
#include "common/engine.hpp"
#include "common/fsutil.hpp"
#include "common/gen_tree.hpp"
#include "common/model.hpp"

using namespace vf;
static Scratch g_scr;

static std::string kv_dump(const Observed &o) {
  // comparison form: key-bearing sections in order, keys, values (NULL == "")
  std::string r;
  for (auto &sk : o.keys) {
    if (sk.second.empty()) continue;
    r += "[" + sk.first + "]\n";
    for (auto &k : sk.second) {
      auto it = o.vals.find({sk.first, k});
      r += "  " + k + "=" + (it != o.vals.end() && it->second ? *it->second : std::string()) + "\n";
    }
  }
  if (!o.error.empty()) r += "ERROR " + o.error + "\n";
  return r;
}

static void run(Src &s) {
  cleanup_tree(g_scr.dir);  // nothing may leak from a previous (failed) case
  TreeOpts to;
  to.two_or_three_layers = true;
  to.allow_dropins_only = false;
  size_t shape = s.weighted({65, 35});  // 0: two layers (all six entry points), 1: three layers (default scheme == PARSING_DIRS)
  Params pa;
  Tree t;
  if (shape == 0) {
    to.only_twodirs = true;
    pa = gen_params(s, to);
    t = gen_tree(s, pa, to);
  } else {
    to.allow_twodirs = false;
    pa = gen_params(s, to);
    pa.scheme = S_DEFAULT;
    pa.name_mode = 0;
    t = gen_tree(s, pa, to);
  }
  std::vector<Consulted> cons = consulted_files(t, pa);
  materialise(t, pa, g_scr.dir);
  // the options object of the readConfig entry points may have been through an earlier, failed read
  pa.warmup_failed_read = s.chance(25);
  if (pa.warmup_failed_read) g_case.tag("object_reused_after_failed_read");
  g_case.desc = describe(t, pa) + (pa.warmup_failed_read ? " (options object reused after a failed read)" : "");
  g_case.nontrivial = cons.size() >= 2;
  g_case.shape_hash = tree_shape(t, pa);
  bool any_masked = false;
  for (auto &c : cons) any_masked = any_masked || c.masked;
  if (any_masked) g_case.tag("masked_member");
  if (pa.scheme == S_TWODIRS && (pa.dirarg_mode[0] || pa.dirarg_mode[1])) g_case.tag("null_or_empty_dir_arg");
  if (pa.confdirs_mode == 2 || pa.confdirs_mode == 3) g_case.tag("global_postfix_list");
  if (shape == 1) g_case.tag("three_layers");
  if (pa.suffix_mode == 0) g_case.tag("suffix_without_dot");
  if (pa.suffix_mode >= 2) g_case.tag("suffix_absent");

  struct Res {
    econf_err rc;
    std::string dump;
    bool have;
  };
  auto do_read = [&](ReadMode m, bool force_pd) {
    CbCtx cb;
    ReadResult rr = read_tree(t, pa, g_scr.dir, m, &cb, force_pd);
    Res r;
    r.rc = rr.rc;
    r.have = rr.kf != nullptr;
    if (rr.kf) {
      r.dump = kv_dump(observe(rr.kf));
      econf_freeFile(rr.kf);
    }
    return r;
  };
  auto same = [&](const Res &a, const Res &b, const char *na, const char *nb) {
    VF_CHECK(a.rc == b.rc, "entry-points-disagree", na << " rc=" << a.rc << " but " << nb << " rc=" << b.rc);
    if (a.rc == ECONF_SUCCESS)
      VF_CHECK(a.dump == b.dump, "entry-points-disagree", na << " returned\n" << a.dump << "but " << nb << " returned\n" << b.dump);
  };

  if (shape == 1) {
    // default scheme under ROOT_PREFIX == explicit PARSING_DIRS with the same three directories
    Res a = do_read(RM_CONFIG, false), b = do_read(RM_CONFIG, true), c = do_read(RM_CONFIG_CB, false), d = do_read(RM_CONFIG_CB, true);
    g_case.evals = 4;
    same(a, b, "readConfig(ROOT_PREFIX)", "readConfig(PARSING_DIRS)");
    same(a, c, "readConfig(ROOT_PREFIX)", "readConfigWithCallback(ROOT_PREFIX)");
    same(a, d, "readConfig(ROOT_PREFIX)", "readConfigWithCallback(PARSING_DIRS)");
    cleanup_tree(g_scr.dir);
    return;
  }
  // ---- two layers
  Res rd = do_read(RM_DIRS, false), rdc = do_read(RM_DIRS_CB, false);
  bool missing = pa.dirarg_mode[0] || pa.dirarg_mode[1];
  g_case.evals = 4;
  same(rd, rdc, "readDirs", "readDirsWithCallback");
  if (!missing) {
    // the layered read configured with the same two directories
    Res rc1 = do_read(RM_CONFIG, true), rc2 = do_read(RM_CONFIG_CB, true);
    g_case.evals += 2;
    same(rd, rc1, "readDirs", "readConfig(PARSING_DIRS)");
    same(rd, rc2, "readDirs", "readConfigWithCallback(PARSING_DIRS)");
  } else if (pa.dirarg_mode[0] && !pa.dirarg_mode[1] && t.layers.size() > 1) {
    // no vendor directory: the same two "directories" are an empty list element and the /etc one
    pa.parsing_dirs_override = ":" + g_scr.dir + t.layers[1].dir;
    Res rc1 = do_read(RM_CONFIG, true), rc2 = do_read(RM_CONFIG_CB, true);
    pa.parsing_dirs_override.clear();
    g_case.evals += 2;
    g_case.tag("empty_first_parsing_dir");
    same(rd, rc1, "readDirs(NULL/empty, etc)", "readConfig(PARSING_DIRS=:etc)");
    same(rd, rc2, "readDirs(NULL/empty, etc)", "readConfigWithCallback(PARSING_DIRS=:etc)");
  }
  // ---- history
  CbCtx cb1, cb2;
  ReadResult h1 = read_tree(t, pa, g_scr.dir, RM_HIST, &cb1), h2 = read_tree(t, pa, g_scr.dir, RM_HIST_CB, &cb2);
  auto fail_free = [&](const std::string &sym, const std::string &msg) {
    free_hist(h1);
    free_hist(h2);
    VF_FAIL(sym, msg);
  };
  if (h1.rc != h2.rc || (h1.rc == ECONF_SUCCESS && h1.hist_size != h2.hist_size))
    fail_free("entry-points-disagree", "readDirsHistory rc=" + std::to_string(h1.rc) + " size=" + std::to_string(h1.hist_size) +
                                           " but WithCallback rc=" + std::to_string(h2.rc) + " size=" + std::to_string(h2.hist_size));
  if (h1.rc != rd.rc) fail_free("history-disagrees", "readDirsHistory rc=" + std::to_string(h1.rc) + " but readDirs rc=" + std::to_string(rd.rc));
  if (h1.rc == ECONF_SUCCESS) {
    // members: paths = consulted in order ("." / ".." ignored), content = independent readFile of that path
    std::vector<size_t> real;
    std::vector<std::string> paths;
    for (size_t i = 0; i < h1.hist_size; i++) {
      char *p = econf_getPath(h1.hist[i]);
      std::string ps = p ? p : "";
      free(p);
      paths.push_back(ps);
      std::string b = base_name(ps);
      if (b == "." || b == "..") continue;
      real.push_back(i);
    }
    if (real.size() != cons.size()) {
      std::string m = "history lists " + std::to_string(real.size()) + " files, " + std::to_string(cons.size()) + " were to be consulted:";
      for (auto &p : paths) m += "\n  " + p;
      fail_free("history-wrong-members", m);
    }
    const std::string D = DELIMS[pa.di].d;
    for (size_t k = 0; k < real.size(); k++) {
      size_t i = real[k];
      std::string want = collapse_slashes(cons[k].path(g_scr.dir));
      if (collapse_slashes(paths[i]) != want)
        fail_free("history-wrong-members", "member " + std::to_string(i) + " has path " + paths[i] + " expected " + want);
      char *p2 = econf_getPath(h2.hist[i]);
      std::string ps2 = p2 ? p2 : "";
      free(p2);
      if (ps2 != paths[i]) fail_free("entry-points-disagree", "history variants list different paths at " + std::to_string(i));
      econf_file *single = nullptr;
      econf_err e = econf_readFile(&single, paths[i].c_str(), D.c_str(), "#");
      if (e != ECONF_SUCCESS) fail_free("harness", "independent readFile of a history member failed rc=" + std::to_string(e));
      std::string a = kv_dump(observe(single)), b = kv_dump(observe(h1.hist[i])), c = kv_dump(observe(h2.hist[i]));
      econf_freeFile(single);
      if (a != b || a != c)
        fail_free("history-wrong-content", "member " + paths[i] + " content differs from an independent read:\nhistory:\n" + b + "independent:\n" + a);
      // and equals what was written there
      Model fm = file_model(*cons[k].file);
      Observed ob = observe(h1.hist[i]);
      std::string d = diff_model(ob, fm, false);
      if (!d.empty()) fail_free("history-wrong-content", "member " + paths[i] + ": " + d);
    }
    // folding the members left to right with the public merge, skipping a member when a later one
    // has the same name, reproduces the merged result
    auto fold = [&](bool never_skip_first) {
      econf_file *acc = nullptr;
      bool acc_owned = false;
      for (size_t i = 0; i < h1.hist_size; i++) {
        std::string b = base_name(paths[i]);
        bool skip = false;
        // (the masking rule is about drop-ins: the main file, always member 0, is never skipped - see DESIGN 8.3)
        bool is_main = !cons.empty() && !cons[0].is_dropin && !real.empty() && i == real[0];
        bool keep = is_main || (never_skip_first && !real.empty() && i == real[0]);
        for (size_t j = i + 1; j < h1.hist_size && b != "." && b != ".." && !keep; j++)
          if (base_name(paths[j]) == b) skip = true;
        if (skip) continue;
        if (!acc) {
          acc = h1.hist[i];
          continue;
        }
        econf_file *m = nullptr;
        econf_err e = econf_mergeFiles(&m, acc, h1.hist[i]);
        if (acc_owned) econf_freeFile(acc);
        if (e != ECONF_SUCCESS) fail_free("harness", "public merge of history members failed rc=" + std::to_string(e));
        acc = m;
        acc_owned = true;
      }
      std::string folded = acc ? kv_dump(observe(acc)) : std::string();
      if (acc_owned) econf_freeFile(acc);
      return folded;
    };
    std::string folded = fold(false);
    bool first_dropin_masked = !cons.empty() && cons[0].is_dropin && cons[0].masked;
    if (folded != rd.dump) {
      if (known_open("first-dropin-unmasked") && first_dropin_masked) {
        // open finding: readDirs does not mask the first drop-in when there is no main file, the
        // documented fold does. Tolerate exactly that: readDirs must equal the fold that keeps member 0.
        if (fold(true) != rd.dump)
          fail_free("history-does-not-explain-result", "(inside the class of known finding first-dropin-unmasked, different symptom) fold:\n" + folded + "readDirs:\n" + rd.dump);
        g_case.known.push_back("first-dropin-unmasked");
      } else
        fail_free("history-does-not-explain-result", "fold of the history:\n" + folded + "readDirs:\n" + rd.dump);
    }
  }
  free_hist(h1);
  free_hist(h2);
  cleanup_tree(g_scr.dir);
}

int main(int argc, char **argv) {
  Harness h;
  h.property_id = "C12";
  h.run = run;
  h.base = 40;
  h.per_size = 16;
  h.setup = [] { g_scr.init(); };
  h.teardown = [] { g_scr.cleanup(); };
  return engine_main(argc, argv, h);
}
