// C05 - a commented-out line is inert whatever it contains (metamorphic)
#include "common/engine.hpp"
#include "common/fsutil.hpp"
#include "common/gen_text.hpp"
#include "common/model.hpp"

using namespace vf;
static Scratch g_scr;

// a wild comment line: blank* c text, text over the full printable alphabet
static std::string wild_comment(Src &s, const GFile &f0, bool allow_indent, bool &indented, int &ncc, bool &structural) {
  static const Alphabet any = make_alphabet("");
  GFile f = f0;
  if (f.C.empty()) f.C = "#";
  std::string ind = allow_indent && s.chance(40) ? gen_blanks(s, 1, 3) : "";
  // (white space in front of the comment character is not only blank and tab)
  if (!ind.empty() && s.chance(15)) ind[s.below((uint32_t)ind.size())] = "\f\v\r"[s.below(3)];
  indented = !ind.empty();
  char c = f.C[s.below((uint32_t)f.C.size())];
  int n = (int)s.below(14);
  std::string t;
  for (int i = 0; i < n; i++) {
    size_t w = s.weighted({40, 14, 12, 10, 8, 8, 8});
    switch (w) {
      case 0: t += gen_atom(s, any); break;
      case 1: t += f.C[s.below((uint32_t)f.C.size())]; break;                       // further comment char
      case 2: t += f.D.empty() ? '=' : f.D[s.below((uint32_t)f.D.size())]; break;   // delimiter
      case 3: t += s.chance(30) ? '\t' : ' '; break;
      case 4: t += '"'; break;
      case 5: t += s.chance(50) ? '[' : ']'; break;
      default: t += "=#;: \t\"[]"[s.below(10)]; break;
    }
  }
  // "whatever it contains" includes its length: now and then the text is blown up to a length around a multiple
  // of the stdio buffer size (a reader that splits a long line turns the tail of the comment into input)
  if (s.chance(3)) {
    static const size_t L[] = {8189, 8190, 8191, 8192, 8193, 16382, 16383, 16384, 16385, 24576, 32768, 70001};
    size_t want = L[s.below(sizeof L / sizeof L[0])] + s.below(3);
    std::string unit = t + (f.D.empty() ? std::string(" k v ") : std::string(" k") + f.D[0] + "v ") + "[sec] \"q\" ";
    std::string big;
    while (big.size() < want) big += unit;
    big.resize(want);
    t = big;
    g_case.tag("long_comment_line");
  }
  ncc = 1;
  structural = false;
  for (char ch : t) {
    if (f.C.find(ch) != std::string::npos) ncc++;
    if (ch == '"' || ch == '[' || ch == ']' || (!f.D.empty() && f.D.find(ch) != std::string::npos) || ch == '=')
      structural = true;
  }
  return ind + c + t;
}

static void read_and_compare(const std::string &path, const std::string &text, const GFile &f, const Model &m,
                             const char *which) {
  write_file(path, text);
  econf_file *kf = nullptr;
  econf_err e = econf_readFile(&kf, path.c_str(), f.D.c_str(), f.C.c_str());
  if (e != ECONF_SUCCESS) {
    char *fn = nullptr;
    uint64_t ln = 0;
    econf_errLocation(&fn, &ln);
    free(fn);
    VF_FAIL("read-failed", which << ": econf_readFile returned " << e << " (" << econf_errString(e) << ") at line "
                                 << ln << "\nfile='" << esc(text) << "'");
  }
  Observed ob = observe(kf);
  std::string d = diff_model(ob, m, true);
  std::string sh = d.empty() ? "" : show(ob);
  econf_freeFile(kf);
  VF_CHECK(d.empty(), "kv-changed", which << ": " << d << "\nfile='" << esc(text) << "'\nobserved:\n" << sh);
}

// kv of an object as comparable text (sections, key listing, values; NULL == "")
static std::string kv_text(const Observed &o) {
  std::string r;
  for (auto &g : o.groups) r += "<" + g + ">";
  r += "\n";
  for (auto &sk : o.keys)
    for (auto &k : sk.second) {
      auto it = o.vals.find({sk.first, k});
      r += "[" + sk.first + "]" + k + "=" + (it != o.vals.end() && it->second ? *it->second : std::string()) + "\n";
    }
  return r + o.error;
}

// read `text` with a parsing option set (1 JOIN_SAME_ENTRIES, 2 PYTHON_STYLE, 3 both) through econf_readConfig
static std::string read_with_option(const std::string &text, const GFile &f, int opt, const char *which) {
  write_file(g_scr.dir + "/vfc.conf", text);
  std::string os = "PARSING_DIRS=" + g_scr.dir;
  if (opt & 1) os += ";JOIN_SAME_ENTRIES=1";
  if (opt & 2) os += ";PYTHON_STYLE=1";
  econf_file *kf = nullptr;
  econf_err e = econf_newKeyFile_with_options(&kf, os.c_str());
  VF_CHECK(e == ECONF_SUCCESS && kf, "harness", "options object");
  e = econf_readConfig(&kf, nullptr, nullptr, "vfc", "conf", f.D.c_str(), f.C.c_str());
  if (e != ECONF_SUCCESS) {
    if (kf) econf_freeFile(kf);
    VF_FAIL("read-failed", which << " (option set " << opt << "): rc=" << e << " (" << econf_errString(e) << ")\nfile='" << esc(text) << "'");
  }
  std::string r = kv_text(observe(kf));
  econf_freeFile(kf);
  return r;
}

static void run(Src &s) {
  GOpts o;
  o.cont = false;       // single-line values only (the property's domain)
  o.blankonly = false;  // deleting comment lines must not create "entry, blank-only line" (outside the grammar)
  o.max_lines = 24;
  // option variant: the relation must also hold under JOIN_SAME_ENTRIES / PYTHON_STYLE. Under PYTHON_STYLE an
  // indented line continues the entry above it, so F itself is kept in column 0 there (inserted comment lines
  // may be indented: they are comments, not continuations)
  int optset = s.chance(30) ? 1 + (int)s.below(3) : 0;
  if (optset) {
    o.allowed_di = {0, 1};
    o.indent_entries = false;
    o.indent_comments = false;
    o.indent_headers = false;
    if (optset & 2) o.header_trail = false;  // under PYTHON_STYLE text after a value/header is not a comment
  }
  // a comment character is a byte, not necessarily an ASCII one
  if (s.chance(8)) {
    o.custom_C = s.chance(50) ? "#\xA7" : "\xA7;";
    g_case.tag("non_ascii_comment_character");
  }
  GFile f = gen_file(s, o);
  // an empty comment argument selects the default '#': every entry point has to treat it the same way
  if (f.C == "#" && s.chance(15)) {
    f.C = "";
    g_case.tag("empty_comment_argument");
  }
  Model m = f.model();
  bool comments_only = f.lines.empty() || s.chance(6);

  // insertion list
  struct Ins {
    size_t pos;
    std::string line;
  };
  std::vector<Ins> ins;
  bool after_entry = false, multi_cc = false, structural = false, indented_any = false;
  int nins = 1 + (int)s.below(6);
  for (int i = 0; i < nins; i++) {
    auto sp = s.span();
    size_t pos;
    // at least half directly after an entry line when there is one
    std::vector<size_t> entry_pos;
    for (size_t k = 0; k < f.lines.size(); k++)
      if (f.lines[k].kind == L_ENTRY) entry_pos.push_back(k + 1);
    if (!entry_pos.empty() && s.chance(60))
      pos = s.pick(entry_pos);
    else
      pos = s.below((uint32_t)f.lines.size() + 1);
    bool ind;
    int ncc;
    bool st;
    std::string l = wild_comment(s, f, true, ind, ncc, st);
    ins.push_back({pos, l});
    if (pos > 0 && pos <= f.lines.size() && f.lines[pos - 1].kind == L_ENTRY) after_entry = true;
    multi_cc = multi_cc || ncc >= 2;
    structural = structural || st;
    indented_any = indented_any || ind;
  }
  // F' = F with insertions (stable by position)
  std::vector<std::string> lp;
  for (size_t k = 0; k <= f.lines.size(); k++) {
    for (auto &x : ins)
      if (x.pos == k) lp.push_back(x.line);
    if (k < f.lines.size()) lp.push_back(f.lines[k].text);
  }
  auto join = [&](const std::vector<std::string> &v) {
    std::string t;
    for (size_t i = 0; i < v.size(); i++) {
      t += v[i];
      if (i + 1 < v.size() || f.final_nl) t += "\n";
    }
    return t;
  };
  std::string t0 = f.text(), t1 = join(lp);
  // F'' = F without its comment lines
  std::vector<std::string> l2;
  for (auto &l : f.lines)
    if (l.kind != L_COMMENT) l2.push_back(l.text);
  std::string t2 = join(l2);

  g_case.desc = std::string("D='") + esc(f.D) + "' C='" + esc(f.C) + "' F='" + esc(t0) + "' F+ins='" + esc(t1) + "'";
  g_case.tag(std::string("delim_") + CLASS_NAME[f.cls]);
  if (indented_any) g_case.tag("indented_insert");
  if (multi_cc) g_case.tag("second_comment_char");
  if (after_entry) g_case.tag("insert_after_entry");
  if (structural) g_case.tag("structural_chars");
  g_case.nontrivial = after_entry || multi_cc || structural;
  {
    uint64_t h = f.skeleton();
    for (auto &x : ins) {
      h = fnv_u64(x.pos, h);
      uint64_t cls = 0;
      for (char ch : x.line) {
        if (f.C.find(ch) != std::string::npos) cls += 1;
        if (ch == '"') cls += 16;
        if (ch == '[' || ch == ']') cls += 256;
        if (ch == ' ' || ch == '\t') cls += 4096;
      }
      h = fnv_u64(cls, h);
    }
    g_case.shape_hash = h;
  }
  g_case.evals = 3;
  std::string path = g_scr.dir + "/f.conf";

  if (comments_only) {
    // one-sided companion: only wild comment lines and empty lines
    g_case.tag("comments_only");
    std::vector<std::string> only;
    for (auto &x : ins) {
      only.push_back(x.line);
      if (s.chance(20)) only.push_back("");
    }
    Model empty;
    read_and_compare(path, join(only), f, empty, "comments-only file");
    return;
  }
  if (optset) {
    g_case.tag(optset == 1 ? "opt_join" : optset == 2 ? "opt_python" : "opt_join_python");
    std::string k0 = read_with_option(t0, f, optset, "F"), k1 = read_with_option(t1, f, optset, "F with inserted comment lines"),
                k2 = read_with_option(t2, f, optset, "F with its comment lines deleted");
    VF_CHECK(k0 == k1, "kv-changed", "option set " << optset << ": inserting comment lines changed the configuration\nF:\n" << esc(k0) << "\nF+ins:\n" << esc(k1));
    VF_CHECK(k0 == k2, "kv-changed", "option set " << optset << ": deleting comment lines changed the configuration\nF:\n" << esc(k0) << "\nF-comments:\n" << esc(k2));
    return;
  }
  read_and_compare(path, t0, f, m, "F");
  read_and_compare(path, t1, f, m, "F with inserted comment lines");
  read_and_compare(path, t2, f, m, "F with its comment lines deleted");
  if (s.chance(20)) {
    // reload: the layered read (default directories, vendor directory = scratch) through a NULL handle, then once
    // more through the object the first read handed back - the comment lines are as inert the second time
    g_case.tag("reload_through_result_object");
    write_file(g_scr.dir + "/vfcr5.conf", t1);
    econf_file *kf = nullptr;
    std::string k1, k2;
    for (int round = 0; round < 2; round++) {
      econf_err e = econf_readConfig(&kf, nullptr, g_scr.dir.c_str(), "vfcr5", "conf", f.D.c_str(), f.C.c_str());
      if (e != ECONF_SUCCESS) {
        if (kf) econf_freeFile(kf);
        VF_FAIL("read-failed", (round ? "second read through the result object of the first" : "layered read") << ": rc=" << e << " (" << econf_errString(e) << ")\nfile='" << esc(t1) << "'");
      }
      (round ? k2 : k1) = kv_text(observe(kf));
    }
    econf_freeFile(kf);
    VF_CHECK(k1 == k2, "kv-changed", "reading F+ins a second time through the object of the first read changed the configuration\nfirst:\n" << esc(k1) << "\nsecond:\n" << esc(k2));
  }
}

int main(int argc, char **argv) {
  Harness h;
  h.property_id = "C05";
  h.run = run;
  h.base = 24;
  h.per_size = 14;
  h.setup = [] { g_scr.init(); };
  h.teardown = [] { g_scr.cleanup(); };
  return engine_main(argc, argv, h);
}
