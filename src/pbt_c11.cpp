// C11 - the set/get/list API behaves as an ordered map from (section, key) to text
#include <climits>

#include "common/engine.hpp"
#include "common/fsutil.hpp"
#include "common/gen_hist.hpp"
#include "common/gen_text.hpp"
#include "common/model.hpp"

using namespace vf;
static Scratch g_scr;

static bool parse_i32(const std::string &t, int32_t &out) {
  if (t.empty() || t.size() > 11) return false;
  size_t i = 0;
  bool neg = false;
  if (t[0] == '-') {
    neg = true;
    i = 1;
  }
  if (i >= t.size() || (t[i] == '0' && t.size() > i + 1)) return false;  // no leading zeros (octal)
  int64_t v = 0;
  for (; i < t.size(); i++) {
    if (t[i] < '0' || t[i] > '9') return false;
    v = v * 10 + (t[i] - '0');
  }
  if (neg) v = -v;
  if (v < INT32_MIN || v > INT32_MAX) return false;
  out = (int32_t)v;
  return true;
}

static Model model_from(const Observed &o) {
  Model m;
  for (auto &g : o.groups) m.declare(g);
  for (auto &sk : o.keys)
    for (auto &k : sk.second) {
      auto it = o.vals.find({sk.first, k});
      m.append(sk.first, k, it != o.vals.end() && it->second ? *it->second : std::string());
    }
  return m;
}

static void run(Src &s) {
  econf_file *kf = nullptr;
  Model m;
  std::string log;
  size_t start = s.weighted({30, 15, 15, 25, 15});
  static const char *SN[5] = {"newKeyFile", "newIniFile", "newKeyFile_with_options", "parsed file", "merge result"};
  econf_err e = ECONF_SUCCESS;
  if (start == 0)
    e = econf_newKeyFile(&kf, s.chance(50) ? '=' : ':', '#');
  else if (start == 1)
    e = econf_newIniFile(&kf);
  else if (start == 2)
    e = econf_newKeyFile_with_options(&kf, "");
  else if (start == 3) {
    GOpts o;
    o.allowed_di = {0, 1, 2, 4};
    o.max_lines = 14;
    o.long_fields = false;
    GFile f = gen_file(s, o);
    std::string path = g_scr.dir + "/start.conf";
    write_file(path, f.text());
    int via = (int)s.weighted({60, 0, 20, 10, 10});
    if (via) g_case.tag("start_parsed_through_layered_read");
    e = read_via(via, g_scr.dir, "start", f.D, f.C, &kf);
    m = f.model();
    log += "start file '" + esc(f.text()) + "' D='" + esc(f.D) + "'; ";
  } else {
    econf_file *a = nullptr, *b = nullptr;
    econf_newKeyFile(&a, '=', '#');
    econf_newIniFile(&b);
    int n = (int)s.below(6);
    for (int i = 0; i < n; i++) {
      const SecArg &sa = SEC_ARGS[s.below(N_SEC_ARGS)];
      econf_setStringValue(s.chance(50) ? a : b, sa.arg, hist_keys()[s.below(4)].c_str(), ("m" + std::to_string(i)).c_str());
    }
    e = econf_mergeFiles(&kf, a, b);
    econf_freeFile(a);
    econf_freeFile(b);
    if (e == ECONF_SUCCESS) m = model_from(observe(kf));
  }
  VF_CHECK(e == ECONF_SUCCESS && kf, "harness", "start state " << SN[start] << " failed rc=" << e);
  struct G {
    econf_file *k;
    ~G() { econf_freeFile(k); }
  } guard{kf};
  g_case.tag(std::string("start_") + SN[start]);

  bool overwrote = false, both_spellings = false;
  std::map<std::string, int> spell;  // norm section -> bitmask of spellings used
  size_t created = 0;
  uint64_t h = start;
  int n = 0;
  auto full_check = [&]() {
    Observed ob = observe(kf);
    std::string d = diff_model(ob, m, true);
    VF_CHECK(d.empty(), "listing-mismatch", "after: " << log << "\n" << d << "\nmodel:\n" << show(m) << "observed:\n" << show(ob));
  };
  for (;;) {
    auto sp = s.span();
    if (!(n < 60 && s.chance(96))) break;
    n++;
    const SecArg &sa = SEC_ARGS[s.below(N_SEC_ARGS)];
    // (a key name may end in a blank: for the API it is a name like any other)
    static const std::string blank_tail_key = "name ";
    const std::string &key = s.chance(6) ? blank_tail_key : hist_keys()[s.below((uint32_t)hist_keys().size())];
    std::string sec = sa.norm;
    const char *sarg = sa.arg;
    bool bracketed = sarg && sarg[0] == '[';
    size_t cmd = s.weighted({22, 8, 6, 6, 14, 6, 8, 6, 6, 6, 6, 6});
    h = fnv_u64(cmd * 64 + (uint64_t)(&sa - SEC_ARGS), h);
    std::string step;
    switch (cmd) {
      case 0: {  // set string
        std::string v = s.chance(15) ? std::string() : gen_text(s, make_alphabet(""), 1 + (int)s.below(8));
        if (s.chance(10)) v += "\n  second line";
        step = "setString([" + esc(sec) + "]," + key + ",'" + esc(v) + "')";
        bool existed = m.lookup(sec, key) != nullptr;
        e = econf_setStringValue(kf, sarg, key.c_str(), v.c_str());
        VF_CHECK(e == ECONF_SUCCESS, "set-failed", log << step << " rc=" << e);
        m.set(sec, key, v);
        overwrote = overwrote || existed;
        created += !existed;
        spell[sec] |= bracketed ? 2 : 1;
        break;
      }
      case 1: {  // set int
        int32_t v = s.chance(30) ? (int32_t)s.raw() : (int32_t)s.below(1000) - 500;
        step = "setInt([" + esc(sec) + "]," + key + "," + std::to_string(v) + ")";
        bool existed = m.lookup(sec, key) != nullptr;
        e = econf_setIntValue(kf, sarg, key.c_str(), v);
        VF_CHECK(e == ECONF_SUCCESS, "set-failed", log << step << " rc=" << e);
        m.set(sec, key, std::to_string(v));
        overwrote = overwrote || existed;
        created += !existed;
        spell[sec] |= bracketed ? 2 : 1;
        break;
      }
      case 2: {  // set uint
        uint32_t v = s.chance(30) ? s.raw() : s.below(1000);
        step = "setUInt([" + esc(sec) + "]," + key + "," + std::to_string(v) + ")";
        bool existed = m.lookup(sec, key) != nullptr;
        e = econf_setUIntValue(kf, sarg, key.c_str(), v);
        VF_CHECK(e == ECONF_SUCCESS, "set-failed", log << step << " rc=" << e);
        m.set(sec, key, std::to_string(v));
        overwrote = overwrote || existed;
        created += !existed;
        spell[sec] |= bracketed ? 2 : 1;
        break;
      }
      case 3: {  // set bool (valid words only)
        static const char *words[8] = {"yes", "no", "true", "false", "1", "0", "YES", "False"};
        static const bool truth[8] = {true, false, true, false, true, false, true, false};
        size_t w = s.below(8);
        step = std::string("setBool([") + esc(sec) + "]," + key + "," + words[w] + ")";
        bool existed = m.lookup(sec, key) != nullptr;
        if (existed && s.chance(12)) {
          // a word that is not a boolean is refused; a refused set is not a set: the entry keeps its text
          step = std::string("setBool([") + esc(sec) + "]," + key + ",maybe)";
          e = econf_setBoolValue(kf, sarg, key.c_str(), "maybe");
          VF_CHECK(e != ECONF_SUCCESS, "junk-accepted", log << step << " succeeded");
          g_case.tag("refused_boolean_set");
          break;
        }
        e = econf_setBoolValue(kf, sarg, key.c_str(), words[w]);
        VF_CHECK(e == ECONF_SUCCESS, "set-failed", log << step << " rc=" << e);
        m.set(sec, key, truth[w] ? "true" : "false");
        overwrote = overwrote || existed;
        created += !existed;
        spell[sec] |= bracketed ? 2 : 1;
        break;
      }
      case 4: {  // get string
        step = "getString([" + esc(sec) + "]," + key + ")";
        char *v = (char *)-1;
        e = econf_getStringValue(kf, sarg, key.c_str(), &v);
        const MEntry *me = m.lookup(sec, key);
        if (!me) {
          VF_CHECK(e == ECONF_NOKEY, "wrong-code", log << step << " rc=" << e << " expected ECONF_NOKEY (key absent)");
        } else {
          VF_CHECK(e == ECONF_SUCCESS, "wrong-code", log << step << " rc=" << e << " expected success");
          std::string got = (v && v != (char *)-1) ? v : "";
          if (v != (char *)-1) free(v);
          VF_CHECK(got == me->value, "wrong-value", log << step << " = '" << esc(got) << "' expected '" << esc(me->value) << "'");
        }
        spell[sec] |= bracketed ? 2 : 1;
        break;
      }
      case 5: {  // get int
        step = "getInt([" + esc(sec) + "]," + key + ")";
        int32_t v = 12345;
        e = econf_getIntValue(kf, sarg, key.c_str(), &v);
        const MEntry *me = m.lookup(sec, key);
        int32_t want;
        if (!me)
          VF_CHECK(e == ECONF_NOKEY, "wrong-code", log << step << " rc=" << e << " expected ECONF_NOKEY");
        else if (parse_i32(me->value, want))
          VF_CHECK(e == ECONF_SUCCESS && v == want, "wrong-value", log << step << " rc=" << e << " value " << v << " expected " << want);
        else if (me->value.empty())
          ;  // key without value: C09's subject
        else {
          // not a plain decimal literal: whatever the conversion says (C09), but never "key absent"
          VF_CHECK(e != ECONF_NOKEY, "wrong-code", log << step << " answered ECONF_NOKEY for an existing key");
        }
        break;
      }
      case 6: {  // get string with default
        step = "getStringDef([" + esc(sec) + "]," + key + ")";
        char *v = nullptr;
        e = econf_getStringValueDef(kf, sarg, key.c_str(), &v, (char *)"the-default");
        const MEntry *me = m.lookup(sec, key);
        std::string got = v ? v : "";
        bool isnull = v == nullptr;
        free(v);
        if (!me)
          VF_CHECK(e == ECONF_NOKEY && got == "the-default", "wrong-default", log << step << " rc=" << e << " value '" << esc(got) << "' expected ECONF_NOKEY and the default");
        else
          VF_CHECK(e == ECONF_SUCCESS && got == me->value && (!isnull || me->value.empty()), "wrong-value",
                   log << step << " rc=" << e << " value '" << esc(got) << "' expected '" << esc(me->value) << "' (key present: never the default)");
        break;
      }
      case 7: {  // get int with default
        step = "getIntDef([" + esc(sec) + "]," + key + ")";
        int32_t v = 777;
        e = econf_getIntValueDef(kf, sarg, key.c_str(), &v, -4711);
        const MEntry *me = m.lookup(sec, key);
        int32_t want;
        if (!me)
          VF_CHECK(e == ECONF_NOKEY && v == -4711, "wrong-default", log << step << " rc=" << e << " value " << v << " expected ECONF_NOKEY and -4711");
        else if (parse_i32(me->value, want))
          VF_CHECK(e == ECONF_SUCCESS && v == want, "wrong-value", log << step << " rc=" << e << " value " << v << " expected " << want);
        else if (!me->value.empty())
          VF_CHECK(e != ECONF_NOKEY, "wrong-code", log << step << " answered ECONF_NOKEY for an existing key");
        break;
      }
      case 8: {  // listing of sections
        step = "getGroups";
        size_t gn = 0;
        char **g = nullptr;
        e = econf_getGroups(kf, &gn, &g);
        std::vector<std::string> got;
        if (e == ECONF_SUCCESS) {
          for (size_t i = 0; i < gn; i++) got.push_back(g[i]);
          econf_freeArray(g);
        } else
          VF_CHECK(e == ECONF_NOGROUP, "wrong-code", log << step << " rc=" << e);
        VF_CHECK(got == m.declared, "listing-mismatch", log << step << " does not list the live sections in insertion order\nmodel:\n" << show(m));
        break;
      }
      case 9: {  // listing of keys (plain section names: bracket equivalence is for value getters/setters)
        step = "getKeys([" + esc(sec) + "])";
        size_t kn = 0;
        char **ks = nullptr;
        e = econf_getKeys(kf, sec.empty() ? (s.chance(50) ? nullptr : "") : sec.c_str(), &kn, &ks);
        std::vector<std::string> got;
        if (e == ECONF_SUCCESS) {
          for (size_t i = 0; i < kn; i++) got.push_back(ks[i]);
          econf_freeArray(ks);
        } else
          VF_CHECK(e == ECONF_NOKEY, "wrong-code", log << step << " rc=" << e);
        VF_CHECK(got == m.keys(sec), "listing-mismatch", log << step << " does not list the keys in insertion order\nmodel:\n" << show(m));
        break;
      }
      case 10: {  // refused calls: no object / no key / empty key; no effect
        size_t w = s.below(6);
        char *sv = nullptr;
        int32_t iv = 0;
        switch (w) {
          case 0: step = "setString(NULL object)"; e = econf_setStringValue(nullptr, sarg, key.c_str(), "x"); break;
          case 1: step = "setString(key NULL)"; e = econf_setStringValue(kf, sarg, nullptr, "x"); break;
          case 2: step = "setString(key '')"; e = econf_setStringValue(kf, sarg, "", "x"); break;
          case 3: step = "getString(NULL object)"; e = econf_getStringValue(nullptr, sarg, key.c_str(), &sv); break;
          case 4: step = "getString(key '')"; e = econf_getStringValue(kf, sarg, "", &sv); break;
          default: step = "getInt(key NULL)"; e = econf_getIntValue(kf, sarg, nullptr, &iv); break;
        }
        VF_CHECK(e != ECONF_SUCCESS, "not-refused", log << step << " returned success");
        g_case.tag("refused_call");
        break;
      }
      default:
        full_check();
        step = "fullcheck";
        break;
    }
    log += step + "; ";
  }
  full_check();
  if (created > 8) g_case.tag("grew_past_8_entries");
  if (overwrote) g_case.tag("overwrote_key");
  for (auto &kv : spell)
    if (kv.second == 3) both_spellings = true;
  if (both_spellings) g_case.tag("both_section_spellings");
  g_case.nontrivial = created > 8 || overwrote || both_spellings;
  g_case.shape_hash = h;
  g_case.evals = (uint64_t)n + 1;
  g_case.desc = std::string(SN[start]) + ": " + log;
}

int main(int argc, char **argv) {
  Harness h;
  h.property_id = "C11";
  h.run = run;
  h.base = 24;
  h.per_size = 14;
  h.setup = [] { g_scr.init(); };
  h.teardown = [] { g_scr.cleanup(); };
  return engine_main(argc, argv, h);
}
