// C09 - typed getters interpret stored text faithfully or refuse - never a wrong value
//
// rapidcheck part: integer literals (3 bases, signs, magnitudes around every type
// limit) evaluated exactly with __int128; floating literals constructed from a
// target bit pattern with a known answer (exact expansion, midpoint +- epsilon,
// ties); boolean texts; keys without value.
// --mode boolexh <maxlen> <shard> <nshards>: every string up to maxlen over the
// reduced alphabet through the boolean getter.
#include <cerrno>
#include <cinttypes>
#include <cmath>
#include <cstring>

#include "common/engine.hpp"
#include "common/fsutil.hpp"
#include "common/gen_text.hpp"
#include "common/model.hpp"

using namespace vf;
static Scratch g_scr;
typedef unsigned __int128 u128;
typedef __int128 i128;

// ------------------------------------------------------------------ tiny bignum (base 1e9)
struct Big {
  std::vector<uint32_t> d;  // little endian
  explicit Big(uint64_t v = 0) {
    while (v) {
      d.push_back((uint32_t)(v % 1000000000u));
      v /= 1000000000u;
    }
  }
  void mul(uint32_t m) {
    uint64_t c = 0;
    for (auto &x : d) {
      uint64_t t = (uint64_t)x * m + c;
      x = (uint32_t)(t % 1000000000u);
      c = t / 1000000000u;
    }
    while (c) {
      d.push_back((uint32_t)(c % 1000000000u));
      c /= 1000000000u;
    }
  }
  std::string str() const {
    if (d.empty()) return "0";
    std::string s = std::to_string(d.back());
    char b[16];
    for (size_t i = d.size() - 1; i-- > 0;) {
      snprintf(b, sizeof b, "%09u", d[i]);
      s += b;
    }
    return s;
  }
};

// exact decimal literal of m * 2^e2 as "<digits>e<exp>"
struct DecLit {
  std::string digits;
  int exp10;
  std::string str() const { return digits + "e" + std::to_string(exp10); }
};
static DecLit exact_decimal(uint64_t m, int e2) {
  Big n(m);
  DecLit r;
  if (e2 >= 0) {
    for (int k = e2; k > 0;) {
      int step = k > 29 ? 29 : k;
      n.mul(1u << step);
      k -= step;
    }
    r.exp10 = 0;
  } else {
    for (int k = -e2; k > 0;) {
      int step = k > 13 ? 13 : k;  // 5^13 = 1220703125 < 2^32
      uint32_t p = 1;
      for (int i = 0; i < step; i++) p *= 5;
      n.mul(p);
      k -= step;
    }
    r.exp10 = e2;
  }
  r.digits = n.str();
  return r;
}

static inline uint64_t dbits(double d) { uint64_t u; memcpy(&u, &d, 8); return u; }
static inline uint32_t fbits(float f) { uint32_t u; memcpy(&u, &f, 4); return u; }

// decompose finite positive double/float bit patterns into m * 2^e2
static void decomp_d(uint64_t bits, uint64_t &m, int &e2) {
  uint64_t frac = bits & 0xFFFFFFFFFFFFFull;
  int ex = (int)((bits >> 52) & 0x7FF);
  if (ex == 0) {
    m = frac;
    e2 = -1074;
  } else {
    m = frac | (1ull << 52);
    e2 = ex - 1075;
  }
}
static void decomp_f(uint32_t bits, uint64_t &m, int &e2) {
  uint32_t frac = bits & 0x7FFFFF;
  int ex = (int)((bits >> 23) & 0xFF);
  if (ex == 0) {
    m = frac;
    e2 = -149;
  } else {
    m = frac | (1u << 23);
    e2 = ex - 150;
  }
}

// ------------------------------------------------------------------ helpers to store text
static econf_file *object_with(const std::string &text, bool via_file, Src &s) {
  econf_file *kf = nullptr;
  if (!via_file) {
    econf_err e = econf_newKeyFile(&kf, '=', '#');
    VF_CHECK(e == ECONF_SUCCESS, "harness", "newKeyFile");
    e = econf_setStringValue(kf, "N", "v", text.c_str());
    VF_CHECK(e == ECONF_SUCCESS, "harness", "setStringValue");
  } else {
    std::string f = "[N]\nv" + std::string(s.chance(50) ? "=" : " = ") + text + "\n";
    write_file(g_scr.dir + "/lit.conf", f);
    econf_err e = econf_readFile(&kf, (g_scr.dir + "/lit.conf").c_str(), "=", "#");
    VF_CHECK(e == ECONF_SUCCESS && kf, "harness", "readFile of literal file rc=" << e);
  }
  return kf;
}
struct KG {
  econf_file *k;
  ~KG() { econf_freeFile(k); }
};

// ------------------------------------------------------------------ integers
static std::string u128_str(u128 v, int base, bool upper) {
  if (v == 0) return "0";
  std::string s;
  while (v) {
    int dg = (int)(v % (unsigned)base);
    s += (char)(dg < 10 ? '0' + dg : (upper ? 'A' : 'a') + dg - 10);
    v /= (unsigned)base;
  }
  std::reverse(s.begin(), s.end());
  return s;
}

static void run_integer(Src &s) {
  // magnitude
  u128 mag;
  size_t mk = s.weighted({30, 20, 20, 15, 15});
  static const u128 limits[8] = {(u128)INT32_MAX, (u128)INT32_MAX + 1, (u128)UINT32_MAX, (u128)INT64_MAX, (u128)INT64_MAX + 1,
                                 (u128)UINT64_MAX, (u128)1 << 32, (u128)1 << 63};
  if (mk == 0) {
    mag = limits[s.below(8)] + (u128)s.below(5) - 2;
  } else if (mk == 1) {
    int bits = 31 + (int)s.below(3);  // 2^31..2^33 neighbourhoods
    mag = ((u128)1 << bits) + (u128)s.below(9) - 4;
  } else if (mk == 2) {
    int bits = 63 + (int)s.below(3);
    mag = ((u128)1 << bits) + (u128)s.below(9) - 4;
  } else if (mk == 3) {
    mag = s.below(100000);
  } else {
    int nd = 1 + (int)s.below(25);
    mag = 0;
    for (int i = 0; i < nd; i++) mag = mag * 10 + (i == 0 ? 1 + s.below(9) : s.below(10));
  }
  int base = (int)s.weighted({45, 22, 33});
  base = base == 0 ? 10 : base == 1 ? 8 : 16;
  int sign = (int)s.weighted({50, 15, 35});  // none, +, -
  std::string lit = sign == 1 ? "+" : sign == 2 ? "-" : "";
  bool upper = s.chance(50);
  if (base == 16) {
    lit += s.chance(50) ? "0x" : "0X";
    std::string h = u128_str(mag, 16, upper);
    if (s.chance(30))
      for (auto &c : h)
        if (isalpha((unsigned char)c) && s.chance(50)) c = (char)(islower((unsigned char)c) ? toupper(c) : tolower(c));
    lit += h;
  } else if (base == 8)
    lit += "0" + u128_str(mag, 8, false);
  else
    lit += u128_str(mag, 10, false);
  i128 val = sign == 2 ? -(i128)mag : (i128)mag;
  bool via_file = s.chance(10);
  econf_file *kf = object_with(lit, via_file, s);
  KG g{kf};
  g_case.desc = "integer literal '" + lit + "'" + (via_file ? " (from a file)" : "");
  g_case.tag(base == 10 ? "decimal" : base == 8 ? "octal" : "hex");
  bool oor32 = val < INT32_MIN || val > INT32_MAX;
  if (oor32) g_case.tag("out_of_int32_range");
  if (val < 0) g_case.tag("negative_for_unsigned");
  g_case.nontrivial = mk <= 2 || base != 10 || mag > UINT32_MAX;
  g_case.shape_hash = fnv(lit);
  g_case.evals = 8;

  auto expect = [&](const char *name, econf_err e, bool in_range, bool equal, const std::string &got) {
    if (in_range)
      VF_CHECK(e == ECONF_SUCCESS && equal, "wrong-integer", name << "('" << lit << "') rc=" << e << " value " << got << " but the literal is representable");
    else
      VF_CHECK(e == ECONF_VALUE_CONVERSION_ERROR, "wrapped-integer",
               name << "('" << lit << "') rc=" << e << " (" << econf_errString(e) << ") value " << got << " but the literal is out of range for the type");
  };
  // the getters must not depend on what an earlier call left in errno
  static const int POISON[6] = {0, ERANGE, ENOENT, EINVAL, ERANGE, EDOM};
  auto poison = [&]() { errno = POISON[s.below(6)]; };
  {
    int32_t r = 7;
    poison();
    econf_err e = econf_getIntValue(kf, "N", "v", &r);
    expect("getInt", e, val >= INT32_MIN && val <= INT32_MAX, (i128)r == val, std::to_string(r));
    r = 7;
    poison();
    e = econf_getIntValueDef(kf, "[N]", "v", &r, -9);
    expect("getIntDef", e, val >= INT32_MIN && val <= INT32_MAX, (i128)r == val, std::to_string(r));
  }
  {
    int64_t r = 7;
    poison();
    econf_err e = econf_getInt64Value(kf, "N", "v", &r);
    expect("getInt64", e, val >= INT64_MIN && val <= INT64_MAX, (i128)r == val, std::to_string(r));
    r = 7;
    poison();
    e = econf_getInt64ValueDef(kf, "N", "v", &r, -9);
    expect("getInt64Def", e, val >= INT64_MIN && val <= INT64_MAX, (i128)r == val, std::to_string(r));
  }
  {
    uint32_t r = 7;
    poison();
    econf_err e = econf_getUIntValue(kf, "N", "v", &r);
    expect("getUInt", e, val >= 0 && val <= UINT32_MAX, (i128)r == val, std::to_string(r));
    r = 7;
    poison();
    e = econf_getUIntValueDef(kf, "N", "v", &r, 9);
    expect("getUIntDef", e, val >= 0 && val <= UINT32_MAX, (i128)r == val, std::to_string(r));
  }
  {
    uint64_t r = 7;
    poison();
    econf_err e = econf_getUInt64Value(kf, "N", "v", &r);
    expect("getUInt64", e, val >= 0 && val <= (i128)UINT64_MAX, (i128)r == val, std::to_string(r));
    r = 7;
    poison();
    e = econf_getUInt64ValueDef(kf, "N", "v", &r, 9);
    expect("getUInt64Def", e, val >= 0 && val <= (i128)UINT64_MAX, (i128)r == val, std::to_string(r));
  }
}

// ------------------------------------------------------------------ floating literals with known answers
// decimal literals that are not zero but round to zero (smaller than half the smallest subnormal): the correctly
// rounded value is +0 / -0, returned - not refused (glibc reports the underflow through errno, not through the value)
static void run_float_underflow(Src &s) {
  const bool is_double = s.chance(60), neg = s.chance(40);
  std::string lit;
  switch (s.below(4)) {
    case 0: lit = std::to_string(1 + s.below(9)) + "e-" + std::to_string((is_double ? 330 : 50) + s.below(400)); break;
    case 1: lit = is_double ? "2e-324" : "7e-46"; break;  // just below half of the smallest subnormal (4.94e-324 / 1.4e-45)
    case 2: lit = "0." + std::string((is_double ? 330 : 50) + s.below(60), '0') + std::to_string(1 + s.below(9)); break;
    default: lit = "0." + std::string((is_double ? 324 : 46), '0') + "1e-" + std::to_string(1 + s.below(40)); break;
  }
  if (neg) lit = "-" + lit;
  econf_file *kf = nullptr;
  econf_newKeyFile(&kf, '=', '#');
  KG g{kf};
  econf_setStringValue(kf, "F", "v", lit.c_str());
  g_case.desc = std::string(is_double ? "double" : "float") + " literal '" + lit + "' (rounds to zero)";
  g_case.tag("float_literal_rounding_to_zero");
  g_case.nontrivial = true;
  g_case.shape_hash = fnv(lit, 1717);
  errno = s.chance(50) ? ERANGE : 0;
  if (is_double) {
    double r = 42;
    econf_err e = econf_getDoubleValue(kf, "F", "v", &r);
    VF_CHECK(e == ECONF_SUCCESS && r == 0.0 && std::signbit(r) == neg, "float-wrong", "getDouble('" << lit << "') rc=" << e << " value " << r << ", expected " << (neg ? "-0" : "+0"));
  } else {
    float r = 42;
    econf_err e = econf_getFloatValue(kf, "F", "v", &r);
    VF_CHECK(e == ECONF_SUCCESS && r == 0.0f && std::signbit(r) == neg, "float-wrong", "getFloat('" << lit << "') rc=" << e << " value " << r << ", expected " << (neg ? "-0" : "+0"));
  }
}

static void run_float(Src &s) {
  if (s.chance(4)) return run_float_underflow(s);
  bool is_double = s.chance(55);
  bool neg = s.chance(30);
  // target bit pattern: finite, positive part
  uint64_t bits;
  size_t bk = s.weighted({55, 15, 15, 15});
  if (is_double) {
    bits = s.raw64() & 0x7FFFFFFFFFFFFFFFull;
    if (bk == 1) bits &= 0x000FFFFFFFFFFFFFull;                              // subnormal
    if (bk == 2) bits = (bits & 0x7FF0000000000000ull) | (s.below(4));       // mantissa near 0
    if (bk == 3) bits = (bits & 0x7FF0000000000000ull) | (0xFFFFFFFFFFFFFull - s.below(4));  // mantissa near all-ones
    if ((bits >> 52) >= 0x7FF) bits = (bits & 0xFFFFFFFFFFFFFull) | (0x7FEull << 52);
    if (bits == 0) bits = 1;
  } else {
    uint32_t b = s.raw() & 0x7FFFFFFFu;
    if (bk == 1) b &= 0x007FFFFFu;
    if (bk == 2) b = (b & 0x7F800000u) | s.below(4);
    if (bk == 3) b = (b & 0x7F800000u) | (0x7FFFFFu - s.below(4));
    if ((b >> 23) >= 0xFF) b = (b & 0x7FFFFFu) | (0xFEu << 23);
    if (b == 0) b = 1;
    bits = b;
  }
  uint64_t m;
  int e2;
  if (is_double)
    decomp_d(bits, m, e2);
  else
    decomp_f((uint32_t)bits, m, e2);
  bool is_max = is_double ? bits == 0x7FEFFFFFFFFFFFFFull : bits == 0x7F7FFFFFu;
  bool subnormal = is_double ? (bits >> 52) == 0 : (bits >> 23) == 0;
  // literal kind
  size_t lk = s.weighted({30, 20, 20, 15, 15});
  if (is_max && lk >= 1 && lk <= 3) lk = 0;
  std::string lit;
  uint64_t want = bits;
  const char *kind = "";
  if (lk == 0) {
    lit = exact_decimal(m, e2).str();
    kind = "exact";
  } else {
    DecLit mid = exact_decimal(2 * m + 1, e2 - 1);
    uint64_t succ = bits + 1;
    if (lk == 1) {
      DecLit up = mid;
      up.digits += "1";
      up.exp10 -= 1;
      lit = up.str();
      want = succ;
      kind = "just above the midpoint";
    } else if (lk == 2) {
      // 10*D - 1 at one more digit: strictly below the midpoint, far above x
      DecLit dn = mid;
      size_t i = dn.digits.size();
      while (i > 0 && dn.digits[i - 1] == '0') dn.digits[--i] = '9';
      dn.digits[i - 1] = (char)(dn.digits[i - 1] - 1);  // D >= 1, so a non-zero digit exists
      dn.digits += "9";
      dn.exp10 -= 1;
      lit = dn.str();
      want = bits;
      kind = "just below the midpoint";
    } else if (lk == 3) {
      lit = mid.str();
      want = (bits & 1) ? succ : bits;  // ties to even
      kind = "exact tie";
    } else {
      char b[64];
      if (is_double) {
        double d;
        memcpy(&d, &bits, 8);
        snprintf(b, sizeof b, s.chance(50) ? "%.17g" : "%.17e", d);
      } else {
        float f;
        uint32_t u = (uint32_t)bits;
        memcpy(&f, &u, 4);
        snprintf(b, sizeof b, s.chance(50) ? "%.9g" : "%.8e", (double)f);
      }
      lit = b;
      kind = "17/9 significant digits";
    }
  }
  // cosmetic variants that do not change the value: E, explicit + exponent sign, decimal point
  if (s.chance(30)) {
    size_t p = lit.find('e');
    if (p != std::string::npos) lit[p] = 'E';
  }
  if (neg) lit = "-" + lit;
  bool via_file = s.chance(10);
  econf_file *kf = object_with(lit, via_file, s);
  KG g{kf};
  g_case.desc = std::string(is_double ? "double" : "float") + " literal (" + kind + ") '" + (lit.size() > 120 ? lit.substr(0, 120) + "..." : lit) + "'";
  g_case.tag(is_double ? "double_literal" : "float_literal");
  g_case.tag(std::string("lit_") + (lk == 0 ? "exact" : lk == 1 ? "above_mid" : lk == 2 ? "below_mid" : lk == 3 ? "tie" : "printf"));
  if (subnormal) g_case.tag("subnormal_literal");
  g_case.nontrivial = lk >= 1;
  g_case.shape_hash = fnv_u64(bits * 8 + lk, is_double ? 3 : 5);
  g_case.evals = 2;
  static const int POISONF[4] = {0, ERANGE, ENOENT, EINVAL};
  if (is_double) {
    double r = 0, r2 = 0;
    errno = POISONF[s.below(4)];
    econf_err e = econf_getDoubleValue(kf, "N", "v", &r);
    errno = POISONF[s.below(4)];
    econf_err e2x = econf_getDoubleValueDef(kf, "N", "v", &r2, 1.0);
    uint64_t wb = want | (neg ? 1ull << 63 : 0);
    VF_CHECK(e == ECONF_SUCCESS && dbits(r) == wb, "wrong-double",
             "getDouble rc=" << e << " bits 0x" << std::hex << dbits(r) << " expected 0x" << wb << std::dec << " (" << kind << ")");
    VF_CHECK(e2x == ECONF_SUCCESS && dbits(r2) == wb, "wrong-double", "getDoubleDef rc=" << e2x << " bits 0x" << std::hex << dbits(r2) << " expected 0x" << wb);
  } else {
    float r = 0, r2 = 0;
    errno = POISONF[s.below(4)];
    econf_err e = econf_getFloatValue(kf, "N", "v", &r);
    errno = POISONF[s.below(4)];
    econf_err e2x = econf_getFloatValueDef(kf, "N", "v", &r2, 1.0f);
    uint32_t wb = (uint32_t)want | (neg ? 1u << 31 : 0);
    VF_CHECK(e == ECONF_SUCCESS && fbits(r) == wb, "wrong-float",
             "getFloat rc=" << e << " bits 0x" << std::hex << fbits(r) << " expected 0x" << wb << std::dec << " (" << kind << ")");
    VF_CHECK(e2x == ECONF_SUCCESS && fbits(r2) == wb, "wrong-float", "getFloatDef rc=" << e2x << " bits 0x" << std::hex << fbits(r2) << " expected 0x" << wb);
  }
}

// ------------------------------------------------------------------ booleans
// expected: 1 true, 0 false, -1 must fail
static int bool_expect(const std::string &t) {
  if (t.empty()) return 0;
  if (t == "1") return 1;
  if (t == "0") return 0;
  std::string l = t;
  for (auto &c : l) c = (char)tolower((unsigned char)c);
  if (l == "yes" || l == "true") return 1;
  if (l == "no" || l == "false") return 0;
  return -1;
}
static void check_bool(econf_file *kf, const std::string &t) {
  econf_err e = econf_setStringValue(kf, "B", "b", t.c_str());
  VF_CHECK(e == ECONF_SUCCESS, "harness", "setStringValue");
  bool r = false;
  e = econf_getBoolValue(kf, "B", "b", &r);
  int want = bool_expect(t);
  if (want < 0)
    VF_CHECK(e != ECONF_SUCCESS, "bool-accepted-junk", "getBool('" << esc(t) << "') succeeded with " << r << " but the text is none of 1/0/yes/no/true/false");
  else
    VF_CHECK(e == ECONF_SUCCESS && r == (want == 1), "bool-wrong", "getBool('" << esc(t) << "') rc=" << e << " value " << r << " expected " << want);
}
static const std::string &bool_alphabet() {
  static const std::string a = "abcdefghijklmnopqrstuvwxyz@#$*,-01237 YNTFES";
  return a;
}

static void run_bool(Src &s) {
  econf_file *kf = nullptr;
  econf_newKeyFile(&kf, '=', '#');
  KG g{kf};
  std::string t;
  size_t k = s.weighted({25, 30, 25, 20, 25});
  static const char *words[4] = {"yes", "no", "true", "false"};
  if (k == 4) {
    // an accepted spelling as a proper part of the text: word + tail, head + word, word + word, a word cut short
    static const char *acc[6] = {"yes", "no", "true", "false", "1", "0"};
    std::string w = acc[s.below(6)];
    for (auto &c : w)
      if (s.chance(30)) c = (char)toupper(c);
    auto junk = [&](int maxn) {
      std::string j;
      int n = 1 + (int)s.below((uint32_t)maxn);
      for (int i = 0; i < n; i++) j += "abdehostxyz019 _-.!"[s.below(19)];
      return j;
    };
    switch (s.below(5)) {
      case 0: t = w + junk(8); break;
      case 1: t = junk(4) + w; break;
      case 2: t = w + acc[s.below(6)]; break;
      case 3: t = w.substr(0, w.size() - 1); break;
      default: t = w + std::string(1 + s.below(3), w.back()); break;
    }
    g_case.tag("bool_word_extended");
  } else
  if (k == 0) {
    t = words[s.below(4)];
    for (auto &c : t)
      if (s.chance(50)) c = (char)toupper(c);
    g_case.tag("bool_word_variant");
  } else if (k == 1) {
    // djb2 neighbours: take a word, shift one character by +k and the next by -33k
    t = words[s.below(4)];
    size_t i = s.below((uint32_t)t.size() - 1);
    int d = 1 + (int)s.below(3);
    if (s.chance(50)) d = -d;
    int c1 = t[i] + d, c2 = t[i + 1] - 33 * d;
    if (c1 >= 33 && c1 < 127 && c2 >= 33 && c2 < 127) {
      t[i] = (char)c1;
      t[i + 1] = (char)c2;
    } else
      t[i] = (char)(t[i] + 1);
    g_case.tag("bool_djb2_neighbour");
  } else if (k == 2) {
    int n = (int)s.below(13);
    for (int i = 0; i < n; i++) t += (char)(33 + s.below(94));
    g_case.tag("bool_random_text");
  } else {
    static const std::vector<std::string> v = {"", "1", "0", "10", "01", "2", "yes ", " no", "y", "n", "t", "f", "on", "off", "_none_", "tru", "fals", "yess", "nO!", "11", "00"};
    t = s.pick(v);
    g_case.tag("bool_special");
  }
  g_case.desc = "boolean text '" + esc(t) + "'";
  g_case.nontrivial = bool_expect(t) < 0;
  g_case.shape_hash = fnv(t, 17);
  check_bool(kf, t);
  // the same through the defaulted getter
  bool r = false;
  econf_err e = econf_getBoolValueDef(kf, "B", "b", &r, true);
  int want = bool_expect(t);
  if (want < 0)
    VF_CHECK(e != ECONF_SUCCESS && e != ECONF_NOKEY, "bool-accepted-junk", "getBoolDef('" << esc(t) << "') rc=" << e);
  else
    VF_CHECK(e == ECONF_SUCCESS && r == (want == 1), "bool-wrong", "getBoolDef('" << esc(t) << "') rc=" << e << " value " << r);
}

// ------------------------------------------------------------------ keys without value
// keys of a delimiter-less file (a list of bare words, /etc/shells style) never have a value - whatever their
// spelling, whatever preceded them
static void run_novalue_list(Src &s) {
  static const char *names[10] = {"retry25", "level3e2", "x0x1F", "n-17", "t1", "yes", "true1", "a017", "k+5", "inf"};
  std::string text;
  std::vector<std::string> keys;
  int n = 2 + (int)s.below(6);
  bool any_comment = false;
  for (int i = 0; i < n; i++) {
    std::string k = names[s.below(10)];
    if (std::find(keys.begin(), keys.end(), k) != keys.end()) continue;
    keys.push_back(k);
    size_t tr = s.weighted({55, 25, 20});
    text += k + (tr == 1 ? " # c" + std::to_string(i) : tr == 2 ? "\t#c" : "") + "\n";
    any_comment = any_comment || tr != 0;
    if (s.chance(15)) text += "# whole line\n";
  }
  write_file(g_scr.dir + "/nvl.conf", text);
  econf_file *kf = nullptr;
  const char *d = s.chance(50) ? "" : "\n";
  econf_err e = econf_readFile(&kf, (g_scr.dir + "/nvl.conf").c_str(), d, "#");
  VF_CHECK(e == ECONF_SUCCESS && kf, "harness", "readFile (no delimiter) rc=" << e << " file '" << esc(text) << "'");
  KG g{kf};
  g_case.desc = "list of bare keys (no delimiter), file '" + esc(text) + "'";
  g_case.tag("key_without_value");
  g_case.tag("bare_key_list");
  g_case.nontrivial = any_comment;
  g_case.shape_hash = fnv(text, 9100);
  g_case.evals = 8 * keys.size();
  for (auto &k : keys) {
    int32_t i32 = 42; int64_t i64 = 42; uint32_t u32 = 42; uint64_t u64 = 42; float f = 42; double dd = 42; bool b = true;
    econf_err r;
    r = econf_getIntValue(kf, nullptr, k.c_str(), &i32);    VF_CHECK(r != ECONF_SUCCESS, "invented-number", "getInt on bare key '" << k << "' succeeded with " << i32);
    r = econf_getInt64Value(kf, nullptr, k.c_str(), &i64);  VF_CHECK(r != ECONF_SUCCESS, "invented-number", "getInt64 on bare key '" << k << "' succeeded with " << i64);
    r = econf_getUIntValue(kf, nullptr, k.c_str(), &u32);   VF_CHECK(r != ECONF_SUCCESS, "invented-number", "getUInt on bare key '" << k << "' succeeded with " << u32);
    r = econf_getUInt64Value(kf, nullptr, k.c_str(), &u64); VF_CHECK(r != ECONF_SUCCESS, "invented-number", "getUInt64 on bare key '" << k << "' succeeded with " << u64);
    r = econf_getFloatValue(kf, nullptr, k.c_str(), &f);    VF_CHECK(r != ECONF_SUCCESS, "invented-number", "getFloat on bare key '" << k << "' succeeded with " << f);
    r = econf_getDoubleValue(kf, nullptr, k.c_str(), &dd);  VF_CHECK(r != ECONF_SUCCESS, "invented-number", "getDouble on bare key '" << k << "' succeeded with " << dd);
    r = econf_getBoolValue(kf, nullptr, k.c_str(), &b);     VF_CHECK(r != ECONF_SUCCESS || b == false, "invented-value", "getBool on bare key '" << k << "' answered true");
    char *sv = (char *)-1;
    r = econf_getStringValue(kf, nullptr, k.c_str(), &sv);
    bool ok = r == ECONF_SUCCESS && (sv == nullptr || *sv == 0);
    std::string got = sv && sv != (char *)-1 ? sv : "";
    if (sv && sv != (char *)-1) free(sv);
    VF_CHECK(ok, "invented-value", "getString on bare key '" << k << "': rc=" << r << " value '" << esc(got) << "'");
  }
}

// a definition without value that takes the place of one with a number: as override in a merge, as the last
// definition under JOIN_SAME_ENTRIES (an empty definition starts the list again)
static void run_novalue_replaced(Src &s) {
  static const char *forms[3] = {"%s\n", "%s=\n", "%s =\n"};
  auto line = [&](const char *k) {
    char b[64];
    snprintf(b, sizeof b, forms[s.below(3)], k);
    return std::string(b);
  };
  const bool join = s.chance(50);
  std::string lower = "[N]\nv=8080\nw=0.5\nb=true\n", upper = "[N]\n" + line("v") + "\n" + line("w") + "\n" + line("b");  // (a bare key directly below an entry would continue it)
  econf_file *kf = nullptr;
  if (join) {
    // one file, both definitions; a bare key directly below an entry would be a continuation line: empty lines between
    std::string text = lower + "\n" + upper.substr(4);
    write_file(g_scr.dir + "/nvj.conf", text);
    econf_err e = econf_newKeyFile_with_options(&kf, ("JOIN_SAME_ENTRIES=1;PARSING_DIRS=" + g_scr.dir).c_str());
    if (e == ECONF_SUCCESS) e = econf_readConfig(&kf, nullptr, nullptr, "nvj", "conf", "=", "#");
    VF_CHECK(e == ECONF_SUCCESS && kf, "harness", "JOIN read rc=" << e << " file '" << esc(text) << "'");
    g_case.desc = "number, then a definition without value under JOIN_SAME_ENTRIES, file '" + esc(text) + "'";
  } else {
    write_file(g_scr.dir + "/nvl.conf", lower);
    write_file(g_scr.dir + "/nvu.conf", upper);
    econf_file *a = nullptr, *b = nullptr;
    econf_err e1 = econf_readFile(&a, (g_scr.dir + "/nvl.conf").c_str(), "=", "#"), e2 = econf_readFile(&b, (g_scr.dir + "/nvu.conf").c_str(), "=", "#");
    econf_err e3 = e1 == ECONF_SUCCESS && e2 == ECONF_SUCCESS ? econf_mergeFiles(&kf, a, b) : ECONF_ERROR;
    if (a) econf_freeFile(a);
    if (b) econf_freeFile(b);
    VF_CHECK(e3 == ECONF_SUCCESS && kf, "harness", "merge rc=" << e1 << "," << e2 << "," << e3);
    g_case.desc = "number overridden by a definition without value (merge), override '" + esc(upper) + "'";
  }
  KG g{kf};
  g_case.tag("key_without_value");
  g_case.tag(join ? "value_reset_under_join" : "value_overridden_by_bare_key");
  g_case.nontrivial = true;
  g_case.shape_hash = fnv(upper, join ? 9201 : 9200);
  g_case.evals = 8;
  int32_t i32 = 42; int64_t i64 = 42; uint32_t u32 = 42; uint64_t u64 = 42; float f = 42; double d = 42; bool bb = true;
  econf_err r;
  r = econf_getIntValue(kf, "N", "v", &i32);    VF_CHECK(r != ECONF_SUCCESS, "invented-number", "getInt on a key whose last definition has no value succeeded with " << i32);
  r = econf_getInt64Value(kf, "N", "v", &i64);  VF_CHECK(r != ECONF_SUCCESS, "invented-number", "getInt64 succeeded with " << i64);
  r = econf_getUIntValue(kf, "N", "v", &u32);   VF_CHECK(r != ECONF_SUCCESS, "invented-number", "getUInt succeeded with " << u32);
  r = econf_getUInt64Value(kf, "N", "v", &u64); VF_CHECK(r != ECONF_SUCCESS, "invented-number", "getUInt64 succeeded with " << u64);
  r = econf_getFloatValue(kf, "N", "w", &f);    VF_CHECK(r != ECONF_SUCCESS, "invented-number", "getFloat succeeded with " << f);
  r = econf_getDoubleValue(kf, "N", "w", &d);   VF_CHECK(r != ECONF_SUCCESS, "invented-number", "getDouble succeeded with " << d);
  r = econf_getBoolValue(kf, "N", "b", &bb);    VF_CHECK(r != ECONF_SUCCESS || bb == false, "invented-value", "getBool answered true");
  int64_t dflt = 7;
  r = econf_getInt64ValueDef(kf, "N", "v", &dflt, 7);
  VF_CHECK(r != ECONF_SUCCESS || dflt == 7, "invented-number", "getInt64Def answered " << dflt);
}

static void run_novalue(Src &s) {
  if (s.chance(25)) return run_novalue_replaced(s);
  if (s.chance(50)) return run_novalue_list(s);
  size_t form = s.below(4);
  static const char *forms[4] = {"[N]\nv\n", "[N]\nv=\n", "[N]\nv \n", "[N]\nv =\n"};
  write_file(g_scr.dir + "/nv.conf", forms[form]);
  econf_file *kf = nullptr;
  econf_err e = econf_readFile(&kf, (g_scr.dir + "/nv.conf").c_str(), "=", "#");
  VF_CHECK(e == ECONF_SUCCESS && kf, "harness", "readFile rc=" << e);
  KG g{kf};
  g_case.desc = std::string("key without value, file '") + esc(forms[form]) + "'";
  g_case.tag("key_without_value");
  g_case.nontrivial = true;
  g_case.shape_hash = 9000 + form;
  g_case.evals = 8;
  int32_t i32 = 42; int64_t i64 = 42; uint32_t u32 = 42; uint64_t u64 = 42; float f = 42; double d = 42; bool b = true;
  econf_err r;
  r = econf_getIntValue(kf, "N", "v", &i32);    VF_CHECK(r != ECONF_SUCCESS, "invented-number", "getInt on a key without value succeeded with " << i32);
  r = econf_getInt64Value(kf, "N", "v", &i64);  VF_CHECK(r != ECONF_SUCCESS, "invented-number", "getInt64 on a key without value succeeded with " << i64);
  r = econf_getUIntValue(kf, "N", "v", &u32);   VF_CHECK(r != ECONF_SUCCESS, "invented-number", "getUInt on a key without value succeeded with " << u32);
  r = econf_getUInt64Value(kf, "N", "v", &u64); VF_CHECK(r != ECONF_SUCCESS, "invented-number", "getUInt64 on a key without value succeeded with " << u64);
  r = econf_getFloatValue(kf, "N", "v", &f);    VF_CHECK(r != ECONF_SUCCESS, "invented-number", "getFloat on a key without value succeeded with " << f);
  r = econf_getDoubleValue(kf, "N", "v", &d);   VF_CHECK(r != ECONF_SUCCESS, "invented-number", "getDouble on a key without value succeeded with " << d);
  r = econf_getBoolValue(kf, "N", "v", &b);     VF_CHECK(r != ECONF_SUCCESS || b == false, "invented-value", "getBool on a key without value answered true");
  char *sv = (char *)-1;
  r = econf_getStringValue(kf, "N", "v", &sv);
  VF_CHECK(r == ECONF_SUCCESS && (sv == nullptr || *sv == 0), "invented-value", "getString on a key without value: rc=" << r);
  if (sv && sv != (char *)-1) free(sv);
}

static void run(Src &s) {
  size_t w = s.weighted({40, 32, 22, 8});
  if (w == 0) {
    g_case.tag("sub_integer");
    run_integer(s);
  } else if (w == 1) {
    g_case.tag("sub_float");
    run_float(s);
  } else if (w == 2) {
    g_case.tag("sub_bool");
    run_bool(s);
  } else
    run_novalue(s);
}

static int mode_boolexh(int maxlen, uint64_t shard, uint64_t nshards) {
  const std::string &A = bool_alphabet();
  econf_file *kf = nullptr;
  econf_newKeyFile(&kf, '=', '#');
  uint64_t n = 0, idx = 0, accepted = 0;
  try {
    for (int len = 0; len <= maxlen; len++) {
      std::vector<size_t> c((size_t)len, 0);
      for (;;) {
        if (idx++ % nshards == shard) {
          std::string t;
          for (size_t i : c) t += A[i];
          check_bool(kf, t);
          n++;
          if (bool_expect(t) >= 0) accepted++;
        }
        int p = len - 1;
        while (p >= 0 && ++c[(size_t)p] == A.size()) c[(size_t)p--] = 0;
        if (p < 0) break;
      }
    }
  } catch (const Fail &f) {
    printf("FAIL %s: %s\n", f.symptom.c_str(), f.detail.c_str());
    write_mode_case("boolexh " + std::to_string(maxlen) + " " + std::to_string(shard) + " " + std::to_string(nshards), f.symptom, f.detail);
    econf_freeFile(kf);
    return 10;
  }
  econf_freeFile(kf);
  g_case.clear();
  g_case.evals = n;
  g_case.nontrivial = true;
  g_case.shape_hash = 5000 + shard;
  g_case.tag("bool_exhaustive");
  g_case.desc = "all strings of length <=" + std::to_string(maxlen) + " over '" + A + "' through the boolean getter (shard " + std::to_string(shard) + "/" + std::to_string(nshards) + ")";
  stats_commit_case();
  stats_add("bool_strings_checked", n);
  stats_add("bool_strings_accepted", accepted);
  char b[300];
  snprintf(b, sizeof b, "{\"space\":\"all strings of length<=%d over a %zu-character reduced alphabet, boolean getter\",\"shard\":%" PRIu64 ",\"of\":%" PRIu64 ",\"strings\":%" PRIu64 ",\"accepted\":%" PRIu64 "}",
           maxlen, A.size(), shard, nshards, n, accepted);
  stats_note("exhaustive", b);
  return 0;
}

int main(int argc, char **argv) {
  Harness h;
  h.property_id = "C09";
  h.run = run;
  h.base = 24;
  h.per_size = 2;
  h.setup = [] { g_scr.init(); };
  h.teardown = [] { g_scr.cleanup(); };
  h.extra = [](const std::string &mode, int argc, char **argv) -> int {
    if (mode == "boolexh" && argc >= 3) return mode_boolexh(atoi(argv[0]), strtoull(argv[1], nullptr, 10), strtoull(argv[2], nullptr, 10));
    return -1;
  };
  return engine_main(argc, argv, h);
}
