// C01 - layered lookup yields the vendor < /run < /etc precedence for every tree
#include "common/engine.hpp"
#include "common/fsutil.hpp"
#include "common/gen_tree.hpp"
#include "common/model.hpp"

using namespace vf;
static Scratch g_scr;

static std::vector<std::string> norm_log(const std::vector<std::string> &log) {
  std::vector<std::string> r;
  for (auto &p : log) {
    std::string b = base_name(p);
    if (b == "." || b == "..") continue;
    r.push_back(collapse_slashes(p));
  }
  return r;
}

static void special_both_null(Src &s) {
  // project == NULL && config_name == NULL must be refused, not crash
  g_case.tag("both_null");
  g_case.desc = "project=NULL name=NULL";
  g_case.nontrivial = true;
  g_case.shape_hash = 424242 + s.below(2);
  econf_file *kf = nullptr;
  std::string opt = "ROOT_PREFIX=" + g_scr.dir;
  econf_err e = econf_newKeyFile_with_options(&kf, opt.c_str());
  VF_CHECK(e == ECONF_SUCCESS, "harness", "options object");
  econf_file *mine = kf;
  const char *nm = s.chance(50) ? nullptr : "";
  e = econf_readConfig(&kf, nullptr, "/usr/lib", nm, "conf", "=", "#");
  bool handed_new = kf && kf != mine;
  if (kf) econf_freeFile(kf);
  VF_CHECK(e != ECONF_SUCCESS, "not-refused", "readConfig(project=NULL, name=NULL/\"\") returned success");
  VF_CHECK(!handed_new, "partial-result", "refused call handed back a new object");
}

static void special_real_defaults(Src &s) {
  // nothing exists below the real default layers -> file-not-found, no object
  g_case.tag("real_default_paths");
  g_case.tag("nofile");
  g_case.nontrivial = true;
  g_case.shape_hash = 434343 + s.below(4);
  std::string proj = "vf-no-such-project-" + std::to_string(s.below(100000));
  g_case.desc = "default paths, project " + proj;
  econf_file *kf = nullptr;
  econf_err e = econf_readConfig(&kf, s.chance(50) ? proj.c_str() : nullptr, "/usr/lib", (proj + "x").c_str(), "conf", "=", "#");
  if (kf) econf_freeFile(kf);
  VF_CHECK(e == ECONF_NOFILE, "wrong-code", "nothing exists: rc=" << e << " expected ECONF_NOFILE");
  VF_CHECK(kf == nullptr, "partial-result", "NOFILE but an object was handed back");
}

static void run(Src &s) {
  cleanup_tree(g_scr.dir);  // nothing may leak from a previous (failed) case
  size_t sp = s.weighted({94, 3, 3});
  if (sp == 1) return special_both_null(s);
  if (sp == 2) return special_real_defaults(s);
  TreeOpts to;
  to.allow_twodirs = false;  // readConfig family; the two-directory entry points are C12's
  Params pa = gen_params(s, to);
  Tree t = gen_tree(s, pa, to);
  std::vector<Consulted> cons = consulted_files(t, pa);
  materialise(t, pa, g_scr.dir);
  bool use_cb = !s.chance(25);
  // drop-ins-only mode looks in <project>.d whatever CONFIG_DIRS list the options object carries
  if (pa.dropins_only() && pa.confdirs_mode == 0 && s.chance(40)) {
    pa.obj_postfixes = {"/conf.d", ".x.d"};
    pa.confdirs_mode = 1;
    g_case.tag("config_dirs_item_in_dropins_only_mode");
  }
  // the caller's options object may have been through an earlier read that failed (nothing of it may stick)
  pa.warmup_failed_read = s.chance(12);
  if (pa.warmup_failed_read) g_case.tag("object_reused_after_failed_read");
  g_case.desc = describe(t, pa) + (use_cb ? " via readConfigWithCallback" : " via readConfig") +
                (pa.warmup_failed_read ? " (options object reused after a failed read)" : "");

  // ---- classes
  size_t nmain_layers = 0, masked = 0;
  for (auto &L : t.layers) nmain_layers += L.main ? 1 : 0;
  for (auto &c : cons) masked += c.masked;
  bool has_main = !cons.empty() && !cons[0].is_dropin;
  if (masked) g_case.tag("masked_dropin");
  if (!has_main) g_case.tag("no_main");
  if (!has_main && !cons.empty() && cons[0].masked) g_case.tag("no_main_first_masked");
  if (has_main && (cons[0].file->kind == F_EMPTY || cons[0].file->kind == F_DEVNULL)) {
    g_case.tag("empty_or_devnull_main");
    for (size_t i = 1; i < cons.size(); i++) {
      if (cons[i].masked) continue;
      if (!file_model(*cons[i].file).key_sections().empty()) g_case.tag("empty_main_sectioned_first_dropin");
      break;
    }
  }
  if (nmain_layers >= 2) g_case.tag("main_in_2_layers");
  {
    bool bo = false;
    for (auto &L : t.layers)
      for (auto &d : L.dropdirs) {
        bool n10 = false, n9 = false, up = false, lo = false;
        for (auto &f : d.files) {
          n10 = n10 || f.name.compare(0, 2, "10") == 0;
          n9 = n9 || f.name.compare(0, 1, "9") == 0 || f.name.compare(0, 1, "5") == 0;
          up = up || f.name[0] == 'B' || f.name[0] == 'Z';
          lo = lo || f.name[0] == 'a' || f.name[0] == '_';
        }
        bo = bo || (n10 && n9) || (up && lo);
      }
    if (bo) g_case.tag("byteorder_sensitive_names");
  }
  if (pa.suffix_mode == 0) g_case.tag("suffix_without_dot");
  if (pa.suffix_mode >= 2) g_case.tag("suffix_absent");
  if (pa.dropins_only()) g_case.tag("dropins_only");
  if (pa.scheme == S_EXPLICIT) g_case.tag("parsing_dirs");
  if (pa.confdirs_mode != 0) g_case.tag("config_dirs_or_global");
  if (pa.project_null) g_case.tag("project_null");
  if (cons.empty()) g_case.tag("nofile");
  bool distract = false;
  for (auto &L : t.layers) {
    distract = distract || !L.distractors.empty();
    for (auto &d : L.dropdirs) distract = distract || (d.exists && !d.files.empty());
  }
  g_case.nontrivial = cons.size() >= 2 || nmain_layers >= 2 || masked || (cons.empty() && distract);
  g_case.shape_hash = tree_shape(t, pa);

  // ---- read
  CbCtx cb;
  int cookie = 0;
  cb.expect_data = &cookie;
  ReadResult rr = read_tree(t, pa, g_scr.dir, use_cb ? RM_CONFIG_CB : RM_CONFIG, &cb);
  Observed ob;
  bool have = rr.kf != nullptr;
  if (have) ob = observe(rr.kf);
  bool caller_obj = rr.caller_object;
  if (rr.kf) econf_freeFile(rr.kf);
  cleanup_tree(g_scr.dir);
  std::string shown = have ? "\nobserved:\n" + show(ob) : std::string();

  bool pseudo = pseudo_files_consulted(t, pa);
  if (cons.empty()) {
    if (pseudo && rr.rc == ECONF_SUCCESS) {
      // suffix-less read of an existing but empty drop-in directory: "." and ".." were consulted
      // as (empty) files; the property neither requires nor forbids that. Must be empty then.
      g_case.tag("pseudo_files_only");
      Model empty;
      std::string d = diff_model(ob, empty, false);
      VF_CHECK(d.empty(), "content-from-nowhere", "no file qualifies but the result is not empty: " << d << shown);
      return;
    }
    VF_CHECK(rr.rc == ECONF_NOFILE, "wrong-code",
             "no file consulted: rc=" << rr.rc << " (" << econf_errString(rr.rc) << ") expected ECONF_NOFILE" << shown);
    if (have) {
      bool keyless = ob.groups.empty() && (ob.keys.empty() || ob.keys[0].second.empty());
      VF_CHECK(caller_obj && keyless, "partial-result", "NOFILE but a configuration was handed back" << shown);
    }
    return;
  }
  VF_CHECK(rr.rc == ECONF_SUCCESS, "read-failed", "rc=" << rr.rc << " (" << econf_errString(rr.rc) << "), " << cons.size() << " files should have been consulted");
  VF_CHECK(have, "no-object", "success but no object");
  Model exp = expected_model(cons);
  std::string d = diff_model(ob, exp, false);
  if (!d.empty() && known_open("first-dropin-unmasked") && !has_main && cons[0].masked) {
    // open finding (KNOWN_FINDINGS.txt): without a main file the first consulted drop-in is never
    // masked. Inside this input class only exactly that symptom is tolerated.
    std::vector<Consulted> alt = cons;
    alt[0].masked = false;
    Model exp2 = expected_model(alt);
    std::string d2 = diff_model(ob, exp2, false);
    VF_CHECK(d2.empty(), "wrong-result",
             "(inside the class of known finding first-dropin-unmasked, but a different symptom) " << d << "\nexpected:\n"
                                                                                                 << show(exp) << shown);
    g_case.known.push_back("first-dropin-unmasked");
    d.clear();
  }
  VF_CHECK(d.empty(), "wrong-result", d << "\nexpected:\n" << show(exp) << shown);
  if (use_cb) {
    std::vector<std::string> got = norm_log(cb.log), want;
    for (auto &c : cons) want.push_back(collapse_slashes(c.path(g_scr.dir)));
    if (got != want) {
      std::string m = "callback saw:";
      for (auto &x : got) m += "\n  " + x;
      m += "\nexpected:";
      for (auto &x : want) m += "\n  " + x;
      VF_FAIL("wrong-consulted-files", m);
    }
    VF_CHECK(cb.data_ok, "callback-data", "callback data pointer was not passed through");
  }
}

int main(int argc, char **argv) {
  Harness h;
  h.property_id = "C01";
  h.run = run;
  h.base = 40;
  h.per_size = 16;
  h.setup = [] { g_scr.init(); };
  h.teardown = [] { g_scr.cleanup(); };
  return engine_main(argc, argv, h);
}
