// C16 - owner, group and symlink restrictions gate every file of every read
#include <set>

#include "common/engine.hpp"
#include "common/fsutil.hpp"
#include "common/gen_tree.hpp"
#include "common/model.hpp"

using namespace vf;
static Scratch g_scr;
static bool g_root = false;

static void run(Src &s) {
  cleanup_tree(g_scr.dir);
  econf_reset_security_settings();
  TreeOpts to;
  to.max_consulted = 5;
  // entry point: 0 readConfig, 1 readConfigWithCallback, 2 readDirs, 3 readDirsHistory, 4 readFile, 5 readDirsWithCallback,
  // 6 readDirsHistoryWithCallback, 7 readFileWithCallback (the callbacks accept everything)
  size_t ep = s.weighted({30, 12, 18, 16, 12, 10, 8, 8});
  const bool single = ep == 4 || ep == 7;
  if (ep == 2 || ep == 3 || ep == 5 || ep == 6) to.only_twodirs = true;
  else to.allow_twodirs = false;
  Params pa = gen_params(s, to);
  if (pa.scheme == S_TWODIRS) pa.dirarg_mode[0] = pa.dirarg_mode[1] = 0;
  Tree t = gen_tree(s, pa, to);
  std::vector<Consulted> cons = consulted_files(t, pa);
  if (single) {
    if (cons.empty()) {
      g_case.desc = "no consulted file";
      return;
    }
    Consulted c = cons[s.below((uint32_t)cons.size())];
    c.masked = false;
    cons.clear();
    cons.push_back(c);
  }
  // active rules
  bool r_owner = g_root && s.chance(45), r_group = g_root && s.chance(40), r_nolink = s.chance(40);
  if (!r_owner && !r_group && !r_nolink) (g_root ? r_owner : r_nolink) = true;
  // required ids: our own (0 as root), a small foreign one, one above INT_MAX (uid_t / gid_t are unsigned 32 bit)
  static const uid_t UIDS[3] = {0, 4242, 3000000000u};
  static const gid_t GIDS[3] = {0, 4343, 4000000000u};
  uid_t req_uid = UIDS[s.weighted({45, 40, 15})];
  gid_t req_gid = GIDS[s.weighted({45, 40, 15})];
  uid_t other_uid = req_uid == 0 ? 4242 : (s.chance(50) ? 0 : 5555);
  gid_t other_gid = req_gid == 0 ? 4343 : (s.chance(50) ? 0 : 5656);
  if (req_uid > 0x7fffffffu || req_gid > 0x7fffffffu) g_case.tag("required_id_above_int_max");
  // assignment per consulted file
  std::vector<std::set<int>> viol(cons.size());  // violated rule codes
  for (size_t i = 0; i < cons.size(); i++) {
    auto sp = s.span();
    TFile *f = cons[i].file;
    bool own_ok = !s.chance(22), grp_ok = !s.chance(22);
    if (!g_root) own_ok = grp_ok = true;
    if (g_root) {
      f->uid = (long long)(own_ok ? req_uid : other_uid);
      f->gid = (long long)(grp_ok ? req_gid : other_gid);
    }
    bool is_link = f->kind == F_DEVNULL || f->kind == F_LINK_REGULAR;
    if (r_nolink && is_link) viol[i].insert(ECONF_ERROR_FILE_IS_SYM_LINK);
    if (r_owner && !own_ok) viol[i].insert(ECONF_WRONG_OWNER);
    if (r_group && !grp_ok) viol[i].insert(ECONF_WRONG_GROUP);
  }
  size_t offender = cons.size();
  for (size_t i = 0; i < cons.size(); i++)
    if (!viol[i].empty()) {
      offender = i;
      break;
    }
  // the offending file may be a symbolic link whose target does not exist: the rules look at the link itself
  // (a dangling link that violates nothing is never generated: what a reader does with it is not C16's subject)
  bool dangling_offender = false;
  if (offender < cons.size() && s.chance(20)) {
    dangling_offender = true;
    cons[offender].file->kind = F_DANGLING;
    if (r_nolink) viol[offender].insert(ECONF_ERROR_FILE_IS_SYM_LINK);
    g_case.tag("offender_is_dangling_link");
  }
  materialise(t, pa, g_scr.dir);
  if (g_root && pa.sfx().empty()) {
    // suffix-less reads consult "." and ".." of every effective drop-in directory as (empty) files;
    // the property neither requires nor forbids that, so those directories are made to satisfy
    // the active rules and never decide the outcome
    std::vector<std::string> eff = pa.eff_postfixes();
    for (auto &L : t.layers)
      for (auto &d : L.dropdirs)
        if (d.exists && std::find(eff.begin(), eff.end(), d.postfix) != eff.end()) {
          std::string dd = g_scr.dir + L.dir + "/" + pa.eff_name() + d.postfix;
          if (chown(dd.c_str(), req_uid, req_gid) != 0) perror("chown dir");
          std::string par = dd.substr(0, dd.find_last_of('/'));
          if (chown(par.c_str(), req_uid, req_gid) != 0) perror("chown dir");
        }
  }
  static const char *EPN[8] = {"readConfig", "readConfigWithCallback", "readDirs", "readDirsHistory", "readFile", "readDirsWithCallback",
                               "readDirsHistoryWithCallback", "readFileWithCallback"};
  g_case.desc = std::string(EPN[ep]) + " rules=" + (r_owner ? "owner(" + std::to_string(req_uid) + ") " : "") +
                (r_group ? "group(" + std::to_string(req_gid) + ") " : "") + (r_nolink ? "nolink " : "") + describe(t, pa) +
                " offender=" + (offender < cons.size() ? std::to_string(offender) + "/" + std::to_string(cons.size()) : std::string("none"));
  g_case.tag(std::string("ep_") + EPN[ep]);
  if (r_nolink) g_case.tag("symlink_rule");
  if (r_owner) g_case.tag("owner_rule");
  if (r_group) g_case.tag("group_rule");
  if (offender < cons.size()) {
    g_case.tag("has_offender");
    if (cons[offender].is_dropin) g_case.tag("offender_is_dropin");
    if (cons[offender].masked) g_case.tag("offender_is_masked");
    if (offender > 0) g_case.tag("offender_not_first");
  }
  g_case.nontrivial = offender < cons.size() && offender > 0;
  g_case.shape_hash = fnv_u64(ep * 1000 + offender * 8 + r_owner * 4 + r_group * 2 + r_nolink, tree_shape(t, pa));
  g_case.evals = 2;

  const std::string D = DELIMS[pa.di].d;
  // a third of the cases names everything relative to the working directory (= the scratch root)
  const bool relative = s.chance(33);
  const std::string rroot = relative ? std::string(".") : g_scr.dir;
  if (relative) g_case.tag("relative_paths");
  auto do_read = [&](ReadResult &rr, Observed &ob, bool &have, std::vector<Observed> &hob) {
    CbCtx cb;
    if (single) {
      econf_file *kf = (econf_file *)-1;
      rr.rc = ep == 4 ? econf_readFile(&kf, cons[0].path(rroot).c_str(), D.c_str(), "#")
                      : econf_readFileWithCallback(&kf, cons[0].path(rroot).c_str(), D.c_str(), "#", vf_accept_all_cb, nullptr);
      rr.kf = kf == (econf_file *)-1 ? nullptr : kf;
    } else {
      static const ReadMode M[8] = {RM_CONFIG, RM_CONFIG_CB, RM_DIRS, RM_HIST, RM_CONFIG, RM_DIRS_CB, RM_HIST_CB, RM_CONFIG};
      rr = read_tree(t, pa, rroot, M[ep], &cb);
    }
    have = rr.kf != nullptr;
    if (have) ob = observe(rr.kf);
    bool hist_handed = rr.hist_mode && rr.hist && rr.hist != (econf_file **)-1;
    if (hist_handed && rr.rc == ECONF_SUCCESS) {
      for (size_t i = 0; i < rr.hist_size; i++) hob.push_back(observe(rr.hist[i]));
      free_hist(rr);
    } else if (hist_handed) {
      rr.hist = (econf_file **)1;  // marker: something was handed back after a failure
    }
    if (rr.kf) econf_freeFile(rr.kf);
  };
  auto check_accepted = [&](const ReadResult &rr, const Observed &ob, bool have, const std::vector<Observed> &hob, const char *what) {
    if (cons.empty()) {
      if (!(pseudo_files_consulted(t, pa) && rr.rc == ECONF_SUCCESS))
        VF_CHECK(rr.rc == ECONF_NOFILE, "wrong-code", what << ": nothing consulted, rc=" << rr.rc);
      return;
    }
    VF_CHECK(rr.rc == ECONF_SUCCESS, "read-failed", what << ": rc=" << rr.rc << " (" << econf_errString(rr.rc) << ") although no file violates an active rule");
    if (rr.hist_mode) {
      size_t real = 0;
      for (auto &h : hob) (void)h, real++;
      VF_CHECK(hob.size() >= cons.size(), "history-short", what << ": history has " << hob.size() << " members, " << cons.size() << " consulted");
      return;
    }
    VF_CHECK(have, "no-object", what << ": success without object");
    Model exp = expected_model(cons);
    std::string d = diff_model(ob, exp, false);
    if (!d.empty() && known_open("first-dropin-unmasked") && cons[0].is_dropin && cons[0].masked) {
      std::vector<Consulted> alt = cons;
      alt[0].masked = false;
      if (diff_model(ob, expected_model(alt), false).empty()) {
        g_case.known.push_back("first-dropin-unmasked");
        d.clear();
      }
    }
    VF_CHECK(d.empty(), "wrong-result", what << ": " << d << "\nobserved:\n" << show(ob));
  };

  // ---- with the restrictions in force
  // an earlier read in the same process, under a requirement every file satisfies, must not make anything "known
  // good" for the reads that follow under other rules
  if (s.chance(30)) {
    g_case.tag("permissive_read_first");
    econf_requirePermissions(S_IRUSR, S_IXUSR);
    ReadResult r0;
    Observed ob0;
    bool have0 = false;
    std::vector<Observed> hob0;
    do_read(r0, ob0, have0, hob0);
  }
  // the setters are independent of each other: any order, an explicit "follow symbolic links" when that rule is
  // off, and a permission rule that every generated file and directory satisfies must not change the outcome
  {
    bool explicit_allow = !r_nolink && s.chance(40), r_perm = s.chance(30);
    int order[4] = {0, 1, 2, 3};
    for (int i = 3; i > 0; i--) std::swap(order[i], order[s.below((uint32_t)i + 1)]);
    for (int k : order) {
      if (k == 0 && r_owner) econf_requireOwner(req_uid);
      if (k == 1 && r_group) econf_requireGroup(req_gid);
      if (k == 2 && r_nolink) econf_followSymlinks(false);
      if (k == 2 && explicit_allow) econf_followSymlinks(true);
      if (k == 3 && r_perm) econf_requirePermissions(S_IRUSR, S_IXUSR);
    }
    if (explicit_allow) g_case.tag("explicit_follow_symlinks");
    if (r_perm) g_case.tag("satisfied_permission_rule");
    if (order[0] != 0 || order[1] != 1 || order[2] != 2) g_case.tag("setters_in_other_order");
  }
  ReadResult rr;
  Observed ob;
  bool have = false;
  std::vector<Observed> hob;
  try {
    do_read(rr, ob, have, hob);
    if (offender < cons.size()) {
      bool code_ok = viol[offender].count((int)rr.rc) != 0;
      std::string want;
      for (int c : viol[offender]) want += std::string(econf_errString((econf_err)c)) + " | ";
      VF_CHECK(code_ok, "wrong-code", "restricted read: rc=" << rr.rc << " (" << econf_errString(rr.rc) << ") expected one of: " << want
                                                              << " (offender " << cons[offender].rel << ")");
      if (have) {
        bool keyless = ob.groups.empty() && (ob.keys.empty() || ob.keys[0].second.empty());
        VF_CHECK(keyless && (rr.caller_object || ep == 2 || ep == 5), "partial-result",
                 "a configuration was handed back although " << cons[offender].rel << " violates a restriction\n" << show(ob));
      }
      VF_CHECK(!(rr.hist_mode && rr.hist == (econf_file **)1), "partial-result", "a history was handed back after a refused file");
    } else {
      check_accepted(rr, ob, have, hob, "restricted read");
    }
  } catch (...) {
    econf_reset_security_settings();
    throw;
  }
  // ---- after the reset all files are accepted again. The reset has to clear every process-wide restriction, also
  // the permission rule (the property says nothing about what that rule refuses, so it is only switched on here -
  // with bits no generated file carries - and never read under)
  if (s.chance(40)) {
    econf_requirePermissions(S_ISVTX, S_ISVTX);
    g_case.tag("permission_rule_before_reset");
  }
  econf_reset_security_settings();
  ReadResult r2;
  Observed ob2;
  bool have2 = false;
  std::vector<Observed> hob2;
  do_read(r2, ob2, have2, hob2);
  // (what a reader without restrictions makes of a dangling link is not C16's subject)
  if (!dangling_offender) check_accepted(r2, ob2, have2, hob2, "read after econf_reset_security_settings");
  cleanup_tree(g_scr.dir);
}

int main(int argc, char **argv) {
  Harness h;
  h.property_id = "C16";
  h.run = run;
  h.base = 40;
  h.per_size = 16;
  h.setup = [] {
    g_scr.init();
    if (chdir(g_scr.dir.c_str()) != 0) perror("chdir");
    g_root = geteuid() == 0;
    if (!g_root) stats_note("not_root", "\"foreign owner/group cases dropped: not running as root\"");
  };
  h.teardown = [] {
    if (chdir("/") != 0) perror("chdir");
    g_scr.cleanup();
  };
  return engine_main(argc, argv, h);
}
