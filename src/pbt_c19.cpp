// C19 - econftool shows what an application would get
//
// The tool (built by the driver from /repo/util/econftool.c + the ASan library,
// path in $VF_ECONFTOOL) runs on a pseudo-terminal so that stdout and stderr
// arrive in program order; the same tree is read in-process through the library.
#include <poll.h>
#include <pty.h>
#include <sys/ioctl.h>
#include <sys/wait.h>

#include "common/engine.hpp"
#include "common/fsutil.hpp"
#include "common/gen_text.hpp"
#include "common/gen_tree.hpp"
#include "common/model.hpp"

using namespace vf;
static Scratch g_scr;
static std::string g_tool;

struct ToolRun {
  int status = -1;
  std::vector<std::string> lines;  // \r stripped
  std::string raw;
};

// The tool runs on a pseudo-terminal so that stdout and stderr arrive in program order. The parent keeps the
// slave side open until everything is read: on Linux unread output can be discarded when the last slave
// descriptor closes at the child's exit (seen as truncated output under load).
static ToolRun run_tool(const std::vector<std::string> &args, const std::string &root) {
  ToolRun r;
  int master = -1, slave = -1;
  struct winsize ws = {50, 4000, 0, 0};
  VF_CHECK(openpty(&master, &slave, nullptr, nullptr, &ws) == 0, "harness", "openpty failed");
  pid_t pid = fork();
  VF_CHECK(pid >= 0, "harness", "fork failed");
  if (pid == 0) {
    close(master);
    setsid();
    ioctl(slave, TIOCSCTTY, 0);
    dup2(slave, 0);
    dup2(slave, 1);
    dup2(slave, 2);
    if (slave > 2) close(slave);
    setenv("ECONFTOOL_ROOT", root.c_str(), 1);
    setenv("ASAN_OPTIONS", "exitcode=99:detect_leaks=0:abort_on_error=0", 1);
    setenv("UBSAN_OPTIONS", "halt_on_error=1:exitcode=99", 1);
    setenv("HOME", root.c_str(), 1);
    unsetenv("XDG_CONFIG_HOME");
    std::vector<char *> av;
    av.push_back(const_cast<char *>(g_tool.c_str()));
    for (auto &a : args) av.push_back(const_cast<char *>(a.c_str()));
    av.push_back(nullptr);
    execv(g_tool.c_str(), av.data());
    _exit(127);
  }
  char buf[65536];
  int st = 0;
  bool exited = false;
  for (;;) {
    struct pollfd pf = {master, POLLIN, 0};
    int pr = poll(&pf, 1, exited ? 8 : 3);
    if (pr > 0 && (pf.revents & POLLIN)) {
      ssize_t n = read(master, buf, sizeof buf);
      if (n > 0) {
        r.raw.append(buf, (size_t)n);
        continue;
      }
    }
    if (exited) break;  // child gone and nothing left to read
    if (waitpid(pid, &st, WNOHANG) == pid) exited = true;
  }
  close(slave);
  close(master);
  r.status = WIFEXITED(st) ? WEXITSTATUS(st) : 1000 + WTERMSIG(st);
  std::string cur;
  for (char c : r.raw) {
    if (c == '\r') continue;
    if (c == '\n') {
      r.lines.push_back(cur);
      cur.clear();
    } else
      cur += c;
  }
  if (!cur.empty()) r.lines.push_back(cur);
  return r;
}

struct Shown {
  std::string section, key;
  std::vector<std::string> values;
  bool operator==(const Shown &o) const {
    // a key without value has no value line; the tool prints it like an empty one
    auto norm = [](std::vector<std::string> v) {
      if (v.size() == 1 && v[0].empty()) v.clear();
      return v;
    };
    return section == o.section && key == o.key && norm(values) == norm(o.values);
  }
};
static std::string show_list(const std::vector<Shown> &v) {
  std::string r;
  for (auto &x : v) {
    r += "  [" + esc(x.section) + "] " + esc(x.key) + " =";
    for (auto &l : x.values) r += " '" + esc(l) + "'";
    r += "\n";
  }
  return r;
}

// what the library returns, as (section, key, value lines); key-bearing sections only
static std::vector<Shown> library_view(econf_file *kf) {
  std::vector<Shown> v;
  Observed ob = observe(kf);
  for (auto &sk : ob.keys)
    for (auto &k : sk.second) {
      Shown s;
      s.section = sk.first;
      s.key = k;
      econf_ext_value *ev = nullptr;
      if (econf_getExtValue(kf, sk.first.empty() ? nullptr : sk.first.c_str(), k.c_str(), &ev) == ECONF_SUCCESS && ev) {
        for (char **p = ev->values; p && *p; p++) s.values.push_back(*p);
        econf_freeExtValue(ev);
      }
      v.push_back(s);
    }
  return v;
}

static std::vector<std::string> g_printed_sections;  // section lines of the block parsed last

// parse one printed configuration block starting at line i (after the "-----" separator); stops at the next separator
static std::vector<Shown> parse_block(const std::vector<std::string> &lines, size_t &i, std::string &path) {
  std::vector<Shown> v;
  std::string cur;
  path.clear();
  g_printed_sections.clear();
  bool in_group_block = false;
  for (; i < lines.size(); i++) {
    const std::string &l = lines[i];
    if (l.compare(0, 10, "----------") == 0) break;
    if (l.compare(0, 6, "Path: ") == 0) {
      path = l.substr(6);
      continue;
    }
    if (l.empty()) {
      in_group_block = false;
      continue;
    }
    size_t p = l.find(" = ");
    if (l.compare(0, 5, "     ") == 0 && !v.empty()) {
      v.back().values.push_back(l.substr(5));
      continue;
    }
    if (p != std::string::npos || (l.size() >= 3 && l.compare(l.size() - 2, 2, " =") == 0)) {
      Shown s;
      s.section = in_group_block ? cur : std::string();
      if (p == std::string::npos) {
        s.key = l.substr(0, l.size() - 2);
        s.values.push_back("");
      } else {
        s.key = l.substr(0, p);
        s.values.push_back(l.substr(p + 3));
      }
      v.push_back(s);
      continue;
    }
    cur = l;
    in_group_block = true;
    g_printed_sections.push_back(l);
  }
  return v;
}

static std::vector<std::string> library_sections(econf_file *kf) {
  std::vector<std::string> r;
  size_t n = 0;
  char **g = nullptr;
  if (econf_getGroups(kf, &n, &g) == ECONF_SUCCESS) {
    for (size_t i = 0; i < n; i++) r.push_back(g[i]);
    econf_freeArray(g);
  }
  return r;
}
static std::string join_names(const std::vector<std::string> &v) {
  std::string r;
  for (auto &x : v) r += "[" + x + "] ";
  return r;
}

static void no_sanitizer_report(const ToolRun &t, const char *what) {
  VF_CHECK(t.status != 99 && t.status < 1000 && t.raw.find("AddressSanitizer") == std::string::npos && t.raw.find("runtime error:") == std::string::npos,
           "tool-memory-error", what << ": the tool died with a sanitizer report or a signal (status " << t.status << ")\n" << t.raw.substr(0, 1500));
}

static void run(Src &s) {
  cleanup_tree(g_scr.dir);
  TreeOpts to;
  to.only_twodirs = true;
  to.allow_dropins_only = false;
  to.allow_links = s.chance(30);
  to.multiline_values = true;
  to.max_consulted = 6;
  size_t dk = s.weighted({40, 15, 15, 10, 10, 10, 8});  // delimiter option: default, "=", " ", \t, spaces, long string, empty
  to.fixed_di = (dk == 2 || dk == 3 || dk == 4) ? 2 : 0;
  if (dk == 6) to.multiline_values = false;  // no delimiter at all: every line is a key of its own
  if (dk == 5) to.multiline_values = false;  // escapes are blanks: a delimiter set with blank and non-blank characters has no multi-line values
  size_t ck = s.weighted({55, 20, 25});  // --comment: default, ';', '#;'
  to.comment_lines = ck == 0 ? "#" : ck == 1 ? ";" : "#;";
  Params pa = gen_params(s, to);
  pa.dirarg_mode[0] = pa.dirarg_mode[1] = 0;
  pa.dir_override = {"/usr/etc", "/etc"};
  pa.suffix_mode = 1;
  pa.confdirs_mode = 0;
  pa.glob_postfixes.clear();
  pa.obj_postfixes.clear();
  Tree t = gen_tree(s, pa, to);
  // shape the contents: group-less only / sections only / both (as generated)
  size_t shape = s.weighted({40, 30, 30});
  auto reshape = [&](TFile &f) {
    if ((f.kind != F_REGULAR && f.kind != F_LINK_REGULAR) || shape == 0) return;
    Model m;
    std::string text;
    const std::string sep = DELIMS[pa.di].d == std::string(" ") ? " " : "=";
    std::string cur;
    for (auto &e : f.content.entries) {
      std::string sec = shape == 1 ? std::string() : (e.section.empty() ? std::string("A") : e.section);
      if (m.lookup(sec, e.key)) continue;
      if (sec != cur) {
        // keep sections contiguous: only append to the current or a new section
        bool seen = false;
        for (auto &x : m.entries) seen = seen || x.section == sec;
        if (seen) continue;
        text += "[" + sec + "]\n";
        cur = sec;
      }
      m.append(sec, e.key, e.value);
      if (s.chance(25)) text += std::string(1, to.comment_lines[s.below((uint32_t)to.comment_lines.size())]) + " remark\n";
      text += e.key + sep + e.value + "\n";  // (continuation lines carry their indentation in the value)
    }
    if (s.chance(25)) {
      // a section without keys: the library lists it (when nothing is merged), so the tool has to
      m.declare("Empty");
      text += "[Empty]\n";
    }
    f.content = m;
    f.text = text;
  };
  for (auto &L : t.layers) {
    if (L.main) reshape(*L.main);
    for (auto &d : L.dropdirs)
      for (auto &f : d.files) reshape(f);
  }
  std::vector<Consulted> cons = consulted_files(t, pa);
  // malformed member?
  bool malformed = !cons.empty() && s.chance(18);
  if (malformed) {
    std::vector<size_t> cand;
    for (size_t i = 0; i < cons.size(); i++)
      if (cons[i].file->kind == F_REGULAR) cand.push_back(i);
    if (cand.empty())
      malformed = false;
    else {
      TFile *f = cons[cand[s.below((uint32_t)cand.size())]].file;
      static const char *bad[4] = {"[broken\n", "[s] trailing\n", "[]\n", "k1=ok\n[x\n"};
      f->has_override = true;
      f->raw_override = (s.chance(50) ? f->text : std::string()) + bad[s.below(4)];
    }
  }
  materialise(t, pa, g_scr.dir);

  // command line
  std::vector<std::string> opts;
  std::string D = DELIMS[pa.di].d, C = "#";
  switch (dk) {
    case 1: opts = {"--delimiters", "="}; break;
    case 2: opts = {"--delimiters= "}; break;
    case 3: opts = {"--delimiters", " \\t"}; D = " \t"; break;
    case 4: opts = {"--delimiters=spaces"}; D = " \t\f\n\r\v"; break;
    case 5: {
      // a long delimiter string with escapes: "=" plus many other characters the files do not contain
      size_t n = 100 + s.below(1900);
      std::string arg = "=", exp = "=";
      // (the tool replaces the first occurrence of each escape: one of each kind at most)
      bool used_v = false, used_f = false;
      while (arg.size() < n) {
        if (!used_v && s.chance(10)) {
          arg += "\\v";
          exp += "\v";
          used_v = true;
        } else if (!used_f && s.chance(10)) {
          arg += "\\f";
          exp += "\f";
          used_f = true;
        } else {
          arg += "|";
          exp += "|";
        }
      }
      opts = {"--delimiters", arg};
      D = exp;
      g_case.tag("long_delimiter_string");
      break;
    }
    case 6:
      // an empty delimiter string is a choice of its own (a list of bare keys), not "use the default"
      if (s.chance(50)) opts = {"--delimiters="}; else opts = {"-d", ""};
      D = "";
      g_case.tag("empty_delimiter_string");
      break;
    default: break;
  }
  if (ck == 1) {
    opts.push_back("--comment");
    opts.push_back(";");
    C = ";";
  } else if (ck == 2) {
    opts.push_back(s.chance(50) ? "--comment=#;" : "-c#;");
    C = "#;";
    g_case.tag("two_comment_characters");
  }
  bool has_groupless = false, has_sections = false;
  for (auto &c : cons)
    for (auto &e : file_model(*c.file).entries) (e.section.empty() ? has_groupless : has_sections) = true;
  g_case.desc = "econftool " + std::string(dk == 5 ? "(long --delimiters)" : opts.empty() ? "" : opts[0]) + " shape=" + std::to_string(shape) +
                (malformed ? " malformed member" : "") + " " + describe(t, pa);
  if (has_groupless && !has_sections) g_case.tag("groupless_only");
  if (has_groupless && has_sections) g_case.tag("groupless_and_sections");
  if (!has_groupless && has_sections) g_case.tag("sections_only");
  if (malformed) g_case.tag("malformed_file");
  if (cons.size() >= 2) g_case.tag("multi_file");
  g_case.nontrivial = has_groupless || cons.size() >= 2 || malformed;
  g_case.shape_hash = fnv_u64(dk * 16 + shape * 4 + malformed, tree_shape(t, pa));

  const std::string R = g_scr.dir;
  const std::string usr = R + "/usr/etc", etc = R + "/etc";
  // ---- library view
  econf_file *kf = (econf_file *)-1;
#pragma GCC diagnostic push
#pragma GCC diagnostic ignored "-Wdeprecated-declarations"
  econf_err lib_rc = econf_readDirs(&kf, usr.c_str(), etc.c_str(), pa.name.c_str(), ".conf", D.c_str(), C.c_str());
#pragma GCC diagnostic pop
  std::vector<Shown> want;
  std::vector<std::string> want_sections;
  std::string err_file;
  uint64_t err_line = 0;
  if (lib_rc == ECONF_SUCCESS) {
    want = library_view(kf);
    want_sections = library_sections(kf);
  } else {
    char *fn = nullptr;
    econf_errLocation(&fn, &err_line);
    err_file = fn ? fn : "";
    free(fn);
  }
  if (kf && kf != (econf_file *)-1) econf_freeFile(kf);

  size_t cmd = s.weighted({45, 30, 25});
  g_case.evals = 1;
  const std::string farg = pa.name + ".conf";
  if (cmd == 0) {
    // ---- show
    g_case.tag("cmd_show");
    std::vector<std::string> a = {"show"};
    a.insert(a.end(), opts.begin(), opts.end());
    a.push_back(farg);
    ToolRun tr = run_tool(a, R);
    no_sanitizer_report(tr, "show");
    VF_CHECK((tr.status != 0) == (lib_rc != ECONF_SUCCESS), "wrong-exit-status", "show: exit status " << tr.status << " but the library returns " << lib_rc << "\n" << tr.raw.substr(0, 800));
    if (lib_rc == ECONF_SUCCESS) {
      size_t i = 0;
      while (i < tr.lines.size() && tr.lines[i].compare(0, 10, "----------") != 0) i++;
      VF_CHECK(i < tr.lines.size(), "unparsable-output", "show: no separator line\n" << tr.raw.substr(0, 800));
      i++;
      std::string path;
      std::vector<Shown> got = parse_block(tr.lines, i, path);
      VF_CHECK(got == want, "show-differs", "show prints\n" << show_list(got) << "but the library returns\n" << show_list(want) << "raw output:\n" << tr.raw.substr(0, 1500));
      VF_CHECK(g_printed_sections == want_sections, "show-differs", "show prints the sections " << join_names(g_printed_sections) << "but the library lists "
                                                                                                << join_names(want_sections) << "\nraw output:\n" << tr.raw.substr(0, 1500));
      if (want_sections.size() > 0 && want.size() > 0) {
        bool keyless = false;
        for (auto &sec : want_sections) {
          bool has = false;
          for (auto &w : want) has = has || w.section == sec;
          keyless = keyless || !has;
        }
        if (keyless) g_case.tag("keyless_section_shown");
      }
    }
  } else if (cmd == 1) {
    // ---- syntax
    g_case.tag("cmd_syntax");
    std::vector<std::string> a = {"syntax"};
    a.insert(a.end(), opts.begin(), opts.end());
    a.push_back(farg);
    ToolRun tr = run_tool(a, R);
    no_sanitizer_report(tr, "syntax");
    VF_CHECK((tr.status != 0) == (lib_rc != ECONF_SUCCESS), "wrong-exit-status", "syntax: exit status " << tr.status << " but the library returns " << lib_rc << "\n" << tr.raw.substr(0, 800));
    if (lib_rc != ECONF_SUCCESS && lib_rc != ECONF_NOFILE) {
      std::string want_msg = err_file + " (line " + std::to_string(err_line) + "): " + econf_errString(lib_rc);
      // the tool runs in another process with another scratch-independent path: same tree, same paths
      VF_CHECK(tr.raw.find(want_msg) != std::string::npos, "wrong-error-report", "syntax: expected the message '" << want_msg << "' in\n" << tr.raw.substr(0, 800));
    }
  } else {
    // ---- cat: the consulted files with their content in processing order
    g_case.tag("cmd_cat");
    std::vector<std::string> a = {"cat"};
    a.insert(a.end(), opts.begin(), opts.end());
    a.push_back(farg);
    ToolRun tr = run_tool(a, R);
    no_sanitizer_report(tr, "cat");
    econf_file **hist = (econf_file **)-1;
    size_t hn = 0;
    econf_err h_rc = econf_readDirsHistory(&hist, &hn, usr.c_str(), etc.c_str(), pa.name.c_str(), ".conf", D.c_str(), C.c_str());
    std::vector<std::pair<std::string, std::vector<Shown>>> hwant;
    std::vector<std::vector<std::string>> hsecs, gsecs;
    if (h_rc == ECONF_SUCCESS) {
      for (size_t i = 0; i < hn; i++) {
        char *p = econf_getPath(hist[i]);
        hsecs.push_back(library_sections(hist[i]));
        hwant.push_back({p ? p : "", library_view(hist[i])});
        free(p);
        econf_freeFile(hist[i]);
      }
      free(hist);
    }
    VF_CHECK((tr.status != 0) == (h_rc != ECONF_SUCCESS), "wrong-exit-status", "cat: exit status " << tr.status << " but the history read returns " << h_rc << "\n" << tr.raw.substr(0, 800));
    if (h_rc == ECONF_SUCCESS) {
      size_t i = 0;
      std::vector<std::pair<std::string, std::vector<Shown>>> got;
      while (i < tr.lines.size()) {
        if (tr.lines[i].compare(0, 10, "----------") != 0) {
          i++;
          continue;
        }
        i++;
        std::string path;
        std::vector<Shown> b = parse_block(tr.lines, i, path);
        got.push_back({path, b});
        gsecs.push_back(g_printed_sections);
      }
      bool same = got.size() == hwant.size() && gsecs == hsecs;
      for (size_t k = 0; same && k < got.size(); k++) same = collapse_slashes(got[k].first) == collapse_slashes(hwant[k].first) && got[k].second == hwant[k].second;
      if (!same) {
        std::string m = "cat lists\n";
        for (auto &g : got) m += " file " + g.first + "\n" + show_list(g.second);
        m += "but the history is\n";
        for (auto &g : hwant) m += " file " + g.first + "\n" + show_list(g.second);
        VF_FAIL("cat-differs", m << "raw output:\n" << tr.raw.substr(0, 1500));
      }
    }
  }
  // ---- a single absolute file through show
  if (!cons.empty() && s.chance(25)) {
    g_case.evals = 2;
    g_case.tag("single_absolute_file");
    std::string fpath = cons[s.below((uint32_t)cons.size())].path(R);
    econf_file *one = (econf_file *)-1;
    econf_err e1 = econf_readFile(&one, fpath.c_str(), D.c_str(), C.c_str());
    std::vector<Shown> w1;
    if (e1 == ECONF_SUCCESS) {
      w1 = library_view(one);
      econf_freeFile(one);
    }
    std::vector<std::string> a = {"show"};
    a.insert(a.end(), opts.begin(), opts.end());
    a.push_back(fpath);
    ToolRun tr = run_tool(a, R);
    no_sanitizer_report(tr, "show <absolute file>");
    VF_CHECK((tr.status != 0) == (e1 != ECONF_SUCCESS), "wrong-exit-status", "show " << fpath << ": exit status " << tr.status << " but econf_readFile returns " << e1);
    if (e1 == ECONF_SUCCESS) {
      size_t i = 0;
      while (i < tr.lines.size() && tr.lines[i].compare(0, 10, "----------") != 0) i++;
      i++;
      std::string path;
      std::vector<Shown> got = parse_block(tr.lines, i, path);
      VF_CHECK(got == w1, "show-differs", "show " << fpath << " prints\n" << show_list(got) << "but the library returns\n" << show_list(w1) << "raw output:\n" << tr.raw.substr(0, 1500));
    }
  }
  cleanup_tree(g_scr.dir);
}

int main(int argc, char **argv) {
  Harness h;
  h.property_id = "C19";
  h.run = run;
  h.shrink_budget = 500;
  h.base = 40;
  h.per_size = 16;
  h.setup = [] {
    g_scr.init();
    const char *t = getenv("VF_ECONFTOOL");
    if (!t) {
      fprintf(stderr, "VF_ECONFTOOL not set\n");
      exit(2);
    }
    g_tool = t;
  };
  h.teardown = [] { g_scr.cleanup(); };
  return engine_main(argc, argv, h);
}
