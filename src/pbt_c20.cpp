// C20 - every allocation is released exactly once on every path, failures included
//
// Every scenario runs in a forked child (engine: always_isolate): the child runs
// the scenario, releases the valid handles with the documented free functions,
// resets the global lists and asks LeakSanitizer for a recoverable leak check.
// The digest of everything observed (g_case.digest) feeds the heap-fill
// differential of the driver (0xAA vs 0x55 fill: uninitialised reads differ).
#include <set>

#include "common/engine.hpp"
#include "common/cshim.h"
#include "common/fsutil.hpp"
#include "common/gen_hist.hpp"
#include "common/gen_text.hpp"
#include "common/gen_tree.hpp"
#include "common/model.hpp"

extern "C" int __lsan_do_recoverable_leak_check(void) __attribute__((weak));

using namespace vf;
static Scratch g_scr;

// the scratch directory has a random name: keep it out of the digest
static std::string scrub(std::string x) {
  size_t p;
  while (!g_scr.dir.empty() && (p = x.find(g_scr.dir)) != std::string::npos) x.replace(p, g_scr.dir.size(), "<R>");
  return x;
}
static void mix_observed(econf_file *kf) {
  // every field an extended getter returns goes into the digest
  g_case.mix(scrub(full_dump(kf, true)));
}

static void leak_check(const char *what) {
  const char *none[1] = {nullptr};
  econf_set_conf_dirs(none);
  econf_reset_security_settings();
  if (__lsan_do_recoverable_leak_check) {
    int l = __lsan_do_recoverable_leak_check();
    VF_CHECK(l == 0, "leak", what << ": memory allocated by the library is still unreleased after all handles were freed (LeakSanitizer report on stderr)");
  }
}

static const econf_file *SENT = (const econf_file *)0x5e5e5e5e;

// out-pointer trichotomy: NULL, untouched sentinel, or a valid (listable, freeable) object
static void settle(econf_file *kf, econf_err rc, const char *what) {
  if (kf == nullptr || kf == SENT) {
    VF_CHECK(rc != ECONF_SUCCESS || kf != nullptr, "no-object", what << ": success but no object");
    VF_CHECK(rc != ECONF_SUCCESS || kf != SENT, "no-object", what << ": success but the out-pointer was not set");
    return;
  }
  mix_observed(kf);  // must be a valid object
  econf_file *r = econf_freeFile(kf);
  VF_CHECK(r == nullptr, "free-result", what << ": econf_freeFile did not return NULL");
}

// ------------------------------------------------------------------ (a) API histories
static void scenario_history(Src &s) {
  g_case.tag("history");
  econf_file *objs[3] = {nullptr, nullptr, nullptr};
  std::string log;
  int n = 0;
  bool failing = false;
  for (;;) {
    auto sp = s.span();
    if (!(n < 50 && s.chance(95))) break;
    n++;
    size_t oi = s.below(3);
    econf_file *&kf = objs[oi];
    size_t cmd = s.below(16);
    if (!kf && cmd > 2) cmd = s.below(3);
    const SecArg &sa = SEC_ARGS[s.below(N_SEC_ARGS)];
    const std::string &key = hist_keys()[s.below((uint32_t)hist_keys().size())];
    econf_err e = ECONF_SUCCESS;
    switch (cmd) {
      case 0: if (kf) econf_freeFile(kf); kf = nullptr; e = econf_newKeyFile(&kf, '=', '#'); log += "new;"; break;
      case 1: if (kf) econf_freeFile(kf); kf = nullptr; e = econf_newIniFile(&kf); log += "ini;"; break;
      case 2: {
        if (kf) econf_freeFile(kf);
        kf = nullptr;
        static const char *opts[9] = {"", "JOIN_SAME_ENTRIES=1", "PYTHON_STYLE=1;JOIN_SAME_ENTRIES=1", "ROOT_PREFIX=/x;ROOT_PREFIX=/y",
                                      "PARSING_DIRS=/a:/b;PARSING_DIRS=/c", "CONFIG_DIRS=.d;CONFIG_DIRS=.e:.f", "CONFIG_DIRS=.d:.e;CONFIG_DIRS=",
                                      "PARSING_DIRS=/a;PARSING_DIRS=", "ROOT_PREFIX=/x;ROOT_PREFIX="};
        e = econf_newKeyFile_with_options(&kf, opts[s.below(9)]);
        log += "opt;";
        break;
      }
      case 3: e = econf_setStringValue(kf, sa.arg, key.c_str(), s.chance(20) ? nullptr : "some value"); log += "setS;"; break;
      case 4: e = econf_setIntValue(kf, sa.arg, key.c_str(), (int32_t)s.raw()); log += "setI;"; break;
      case 5: e = econf_setDoubleValue(kf, sa.arg, key.c_str(), 0.5 * (double)s.below(100)); log += "setD;"; break;
      case 6: {
        static const char *w[6] = {"yes", "no", "TRUE", "maybe", "", nullptr};
        e = econf_setBoolValue(kf, sa.arg, key.c_str(), w[s.below(6)]);
        log += "setB;";
        break;
      }
      case 7: {
        char *v = nullptr;
        e = econf_getStringValue(kf, sa.arg, key.c_str(), &v);
        if (e == ECONF_SUCCESS) {
          g_case.mix(v ? v : "<null>");
          free(v);
        }
        log += "getS;";
        break;
      }
      case 8: {
        econf_ext_value *ev = nullptr;
        e = econf_getExtValue(kf, sa.norm[0] ? sa.norm : nullptr, key.c_str(), &ev);
        if (e == ECONF_SUCCESS && ev) {
          g_case.mix(ev->line_number);
          g_case.mix(scrub(ev->file ? ev->file : "<null>"));
          for (char **p = ev->values; p && *p; p++) g_case.mix(*p);
          econf_freeExtValue(ev);
        }
        log += "getX;";
        break;
      }
      case 9: {
        int64_t v = 0;
        e = econf_getInt64Value(kf, sa.arg, key.c_str(), &v);
        if (e == ECONF_SUCCESS) g_case.mix((uint64_t)v);
        bool b = false;
        econf_err e2 = econf_getBoolValue(kf, sa.arg, key.c_str(), &b);
        g_case.mix((uint64_t)e2 * 2 + (e2 == ECONF_SUCCESS ? b : 0));
        log += "getN;";
        break;
      }
      case 10: {
        char *v = nullptr;
        e = econf_getStringValueDef(kf, sa.arg, key.c_str(), &v, (char *)"dflt");
        if (e == ECONF_SUCCESS || e == ECONF_NOKEY) {
          g_case.mix(v ? v : "<null>");
          free(v);
        }
        log += "getSD;";
        break;
      }
      case 11: {
        econf_file *o = objs[(oi + 1) % 3];
        if (!o) break;
        econf_file *m = (econf_file *)SENT;
        e = econf_mergeFiles(&m, kf, o);
        settle(m, e, "econf_mergeFiles");
        log += "merge;";
        break;
      }
      case 12: {
        e = econf_writeFile(kf, s.chance(85) ? g_scr.dir.c_str() : (g_scr.dir + "/no/such/dir").c_str(), "h.out");
        log += "write;";
        break;
      }
      case 13: {
        // failing / refused calls
        char *v = nullptr;
        econf_err e1 = econf_getStringValue(nullptr, sa.arg, key.c_str(), &v);
        econf_err e2 = econf_setStringValue(kf, sa.arg, "", "x");
        econf_err e3 = econf_setStringValue(nullptr, sa.arg, key.c_str(), "x");
        econf_file *m = (econf_file *)SENT;
        econf_err e4 = econf_mergeFiles(&m, kf, nullptr);
        settle(m, e4, "econf_mergeFiles(kf, NULL)");
        g_case.mix((uint64_t)e1 * 1000000 + (uint64_t)e2 * 10000 + (uint64_t)e3 * 100 + (uint64_t)e4);
        VF_CHECK(e1 && e2 && e3 && e4, "not-refused", "a refused call returned success");
        failing = true;
        log += "refused;";
        break;
      }
      case 14: {
        // free functions accept NULL and return NULL
        VF_CHECK(econf_freeFile(nullptr) == nullptr, "free-result", "econf_freeFile(NULL) != NULL");
        VF_CHECK(econf_freeArray(nullptr) == nullptr, "free-result", "econf_freeArray(NULL) != NULL");
        econf_freeExtValue(nullptr);
        size_t gn = 0;
        char **g = nullptr;
        e = econf_getGroups(kf, &gn, &g);
        if (e == ECONF_SUCCESS) {
          for (size_t i = 0; i < gn; i++) g_case.mix(g[i]);
          // the generic econf_free() macro of the header (C only, through the shim) is the same release
          VF_CHECK(vf_generic_free_array(g) == nullptr, "free-result", "econf_free(char **) != NULL");
        }
        VF_CHECK(vf_generic_free_file(nullptr) == nullptr && vf_generic_free_array(nullptr) == nullptr, "free-result", "econf_free(NULL) != NULL");
        e = ECONF_SUCCESS;
        log += "freeNULL;";
        break;
      }
      default: {
        if (kf) mix_observed(kf);
        log += "dump;";
        break;
      }
    }
    g_case.mix((uint64_t)e);
    if (e != ECONF_SUCCESS) failing = true;
  }
  for (size_t i = 0; i < 3; i++)
    if (objs[i]) {
      mix_observed(objs[i]);
      VF_CHECK((i == 2 ? vf_generic_free_file(objs[i]) : econf_freeFile(objs[i])) == nullptr, "free-result", "econf_freeFile / econf_free != NULL");
    }
  g_case.desc = "history: " + log;
  if (failing) g_case.tag("failing_call");
  g_case.nontrivial = failing;
  g_case.shape_hash = fnv(log);
  leak_check("API history");
}

// ------------------------------------------------------------------ (b) layered reads with a fault at each consulted file
enum Fault { FL_NONE = 0, FL_CALLBACK, FL_OWNER, FL_MALFORMED, FL_DANGLING, FL_VANISH, FL_DIRPERM, FL_NFAULTS };
static const char *const FLN[FL_NFAULTS] = {"none", "callback_rejection", "foreign_owner", "malformed_line", "dangling_symlink", "vanished_in_callback",
                                            "directory_permission"};

static void scenario_tree(Src &s) {
  g_case.tag("layered_read");
  cleanup_tree(g_scr.dir);
  TreeOpts to;
  to.max_consulted = 5;
  size_t ep = s.weighted({34, 18, 16, 16, 16});  // readConfig(cb), readDirs(cb), readDirsHistory(cb), readFile(cb), readConfig without cb
  if (ep == 1 || ep == 2) to.only_twodirs = true;
  else to.allow_twodirs = false;
  Params pa = gen_params(s, to);
  if (pa.scheme == S_TWODIRS) pa.dirarg_mode[0] = pa.dirarg_mode[1] = 0;
  Tree t = gen_tree(s, pa, to);
  std::vector<Consulted> cons = consulted_files(t, pa);
  if (ep == 3 && !cons.empty()) {
    Consulted c = cons[s.below((uint32_t)cons.size())];
    cons.clear();
    c.masked = false;
    cons.push_back(c);
  }
  int fault = (int)s.weighted({12, 22, geteuid() == 0 ? 16 : 0, 20, 15, 15, 8});
  if (cons.empty()) fault = FL_NONE;
  if (ep == 4 && (fault == FL_CALLBACK || fault == FL_VANISH)) fault = FL_MALFORMED;
  size_t at = cons.empty() ? 0 : s.below((uint32_t)cons.size());
  if (fault == FL_OWNER) cons[at].file->uid = 4242;
  if (fault == FL_MALFORMED) {
    cons[at].file->kind = F_REGULAR;
    cons[at].file->has_override = true;
    cons[at].file->raw_override = s.chance(50) ? "k1=v\n[broken\nk2=w\n" : "[ok]\na=1\n[]\n";
  }
  if (fault == FL_DANGLING) cons[at].file->kind = F_DANGLING;
  materialise(t, pa, g_scr.dir);
  if (fault == FL_OWNER) {
    // suffix-less reads consult "." and ".." too: keep the directories acceptable
    econf_requireOwner(0);
  }
  if (fault == FL_DIRPERM) {
    // a permission requirement the files satisfy and their directories do not (no generated directory is
    // world-writable): the first consulted file is refused after its own mode has been accepted
    econf_requirePermissions(S_IRUSR, S_IWOTH);
    at = 0;
  }
  // drop-ins-only mode replaces the object's CONFIG_DIRS list by {".d"}: give it a list to replace
  if (pa.dropins_only() && pa.confdirs_mode == 0 && s.chance(40)) {
    pa.obj_postfixes = {".x.d", "/y.d"};
    pa.confdirs_mode = 1;
    g_case.tag("config_dirs_item_in_dropins_only_mode");
  }
  // the caller's options object may have been through a failing read before (readConfig entry points)
  pa.warmup_failed_read = s.chance(15);
  if (pa.warmup_failed_read) g_case.tag("object_reused_after_failed_read");
  std::string victim = cons.empty() ? std::string() : collapse_slashes(cons[at].path(g_scr.dir));
  static const char *EPN[5] = {"readConfigWithCallback", "readDirsWithCallback", "readDirsHistoryWithCallback", "readFileWithCallback", "readConfig"};
  g_case.desc = std::string(EPN[ep]) + " fault=" + FLN[fault] + " at " + std::to_string(at) + "/" + std::to_string(cons.size()) + " " + describe(t, pa);
  g_case.tag(std::string("fault_") + FLN[fault]);
  if (fault != FL_NONE && !cons.empty() && cons[at].is_dropin) g_case.tag("fault_in_dropin");
  if (fault != FL_NONE && at >= 1) g_case.tag("fault_at_index_ge1");
  g_case.nontrivial = fault != FL_NONE && at >= 1;
  g_case.shape_hash = fnv_u64((uint64_t)ep * 1000 + (uint64_t)fault * 50 + at, tree_shape(t, pa));

  CbCtx cb;
  cb.decide = [&](const char *fn) {
    std::string p = collapse_slashes(fn ? fn : "");
    if (p != victim) return true;
    if (fault == FL_CALLBACK) return false;
    if (fault == FL_VANISH) unlink(fn);
    return true;
  };
  const std::string D = DELIMS[pa.di].d;
  econf_err rc;
  if (ep == 3) {
    const void *cbdata[2] = {&cb, nullptr};
    econf_file *kf = (econf_file *)SENT;
    if (cons.empty())
      rc = econf_readFileWithCallback(&kf, (g_scr.dir + "/missing.conf").c_str(), D.c_str(), "#", tree_callback, cbdata);
    else
      rc = econf_readFileWithCallback(&kf, cons[0].path(g_scr.dir).c_str(), D.c_str(), "#", tree_callback, cbdata);
    g_case.mix((uint64_t)rc);
    settle(kf, rc, "econf_readFileWithCallback");
  } else {
    static const ReadMode M[5] = {RM_CONFIG_CB, RM_DIRS_CB, RM_HIST_CB, RM_CONFIG_CB, RM_CONFIG};
    ReadResult rr = read_tree(t, pa, g_scr.dir, M[ep], &cb);
    rc = rr.rc;
    g_case.mix((uint64_t)rc);
    if (rr.hist_mode) {
      bool handed = rr.hist && rr.hist != (econf_file **)-1;
      VF_CHECK(rc != ECONF_SUCCESS || handed, "no-object", "history: success without list");
      if (handed) {
        // either a valid list (success) or NULL/untouched; a list after a failure must still be valid and freeable
        for (size_t i = 0; i < rr.hist_size; i++) {
          VF_CHECK(rr.hist[i] != nullptr, "dangling-out-pointer", "history member " << i << " is NULL");
          mix_observed(rr.hist[i]);
        }
        free_hist(rr);
      }
    } else {
      settle(rr.kf, rc, RM_NAME[M[ep]]);
    }
  }
  if (fault != FL_NONE && fault != FL_VANISH && fault != FL_DANGLING) {
    // (a vanished or unreadable file may legitimately read as missing - a main file is then looked for in the
    // next layer; all others must fail the call)
    VF_CHECK(rc != ECONF_SUCCESS || cons.empty(), "fault-ignored", "the read succeeded although " << victim << " carries fault " << FLN[fault]);
  }
  econf_reset_security_settings();
  cleanup_tree(g_scr.dir);
  leak_check(g_case.desc.c_str());
}

// ------------------------------------------------------------------ (c) option strings, (d) failing single-file reads
static void scenario_options(Src &s) {
  g_case.tag("option_strings");
  static const std::vector<std::string> items = {"JOIN_SAME_ENTRIES=1", "JOIN_SAME_ENTRIES=0", "PYTHON_STYLE=1", "PARSING_DIRS=/a:/b:/c", "PARSING_DIRS=/d",
                                                 "CONFIG_DIRS=.d:.conf.d", "CONFIG_DIRS=.x", "ROOT_PREFIX=/r1", "ROOT_PREFIX=/r2", "FOO=1", "UNKNOWN",
                                                 "join_same_entries=1", "CONFIG_DIRS=", "PARSING_DIRS=", "ROOT_PREFIX=", "PYTHON_STYLE=0"};
  int n = (int)s.below(8);
  std::string opt;
  std::set<std::string> seen;
  bool repeated = false, unknown = false;
  for (int i = 0; i < n; i++) {
    const std::string &it = items[s.below((uint32_t)items.size())];
    std::string nm = it.substr(0, it.find('='));
    if (seen.count(nm)) repeated = true;
    seen.insert(nm);
    if (nm == "FOO" || nm == "UNKNOWN" || nm == "join_same_entries") unknown = true;
    opt += (i ? ";" : "") + it;
  }
  econf_file *kf = (econf_file *)SENT;
  econf_err e = econf_newKeyFile_with_options(&kf, opt.c_str());
  g_case.mix((uint64_t)e);
  if (e == ECONF_SUCCESS && s.chance(50)) {
    // use the object for a read that finds nothing
    econf_err e2 = econf_readConfig(&kf, "vf-no-such-project", "/usr/lib", "vf-no-such-name", "conf", "=", "#");
    g_case.mix((uint64_t)e2);
  }
  settle(kf, e, "econf_newKeyFile_with_options");
  g_case.desc = "options '" + opt + "'";
  if (repeated) g_case.tag("repeated_item");
  if (unknown) g_case.tag("unknown_item");
  g_case.nontrivial = repeated || unknown;
  g_case.shape_hash = fnv(opt);
  leak_check(g_case.desc.c_str());
}

static void scenario_single(Src &s) {
  g_case.tag("single_file");
  clear_dir(g_scr.dir);
  std::string p = g_scr.dir + "/s.conf";
  size_t k = s.below(7);
  static const char *KN[7] = {"missing", "malformed_header", "missing_delimiter", "dangling_link", "directory", "ok_then_text_after_section", "ok"};
  switch (k) {
    case 0: break;
    case 1: write_file(p, "a=1\n#c\n[sec\nb=2\n"); break;
    case 2: write_file(p, "[s]\na=1\n\nkey value\n"); break;
    case 3: if (symlink((g_scr.dir + "/nowhere").c_str(), p.c_str()) != 0) perror("symlink"); break;
    case 4: mkdir(p.c_str(), 0755); break;
    case 5: write_file(p, "# comment\na = 1 # trailing\n  more\n[s] junk\n"); break;
    default: write_file(p, "# c1\n# c2\na = \"x y\" # t\nb=1\n  2\n[s]\nc\n"); break;
  }
  econf_file *kf = (econf_file *)SENT;
  bool plain_delim = s.chance(50) || k == 2;  // "key value" is only malformed under a non-blank delimiter set
  econf_err e = plain_delim ? econf_readFile(&kf, p.c_str(), "=", "#") : econf_readFile(&kf, p.c_str(), " \t=", "#;");
  g_case.mix((uint64_t)e);
  if (e != ECONF_SUCCESS) {
    char *fn = nullptr;
    uint64_t ln = 0;
    econf_errLocation(&fn, &ln);
    free(fn);
  }
  VF_CHECK(k >= 6 || k == 4 || e != ECONF_SUCCESS, "fault-ignored", "reading a " << KN[k] << " file succeeded");
  settle(kf, e, "econf_readFile");
  if (s.chance(35)) {
    // the same read owned by __attribute__((cleanup(econf_freeFilep / econf_freeArrayp))) variables (header helpers)
    unsigned long ng = 0;
    int e2 = plain_delim ? vf_cleanup_scope(p.c_str(), "=", "#", &ng) : vf_cleanup_scope(p.c_str(), " \t=", "#;", &ng);
    VF_CHECK(e2 == (int)e, "unstable-code", "second read of the same file returned " << e2 << " instead of " << e);
    g_case.mix((uint64_t)ng);
    g_case.tag("cleanup_attribute_scope");
  }
  g_case.desc = std::string("single file: ") + KN[k];
  g_case.nontrivial = k < 6;
  if (k < 6) g_case.tag("failing_call");
  g_case.shape_hash = 7000 + k;
  leak_check(g_case.desc.c_str());
}

// (e) files with repeated keys, empty definitions, (double) trailing comments and indented lines, read with the
// parsing options (JOIN_SAME_ENTRIES re-allocates values and comments of earlier entries), then queried and freed
static void scenario_option_read(Src &s) {
  g_case.tag("option_read");
  clear_dir(g_scr.dir);
  GOpts o;
  o.bare = true;
  o.max_lines = 16;
  o.long_fields = false;
  o.wild_trail = true;
  o.cont_after_quoted = true;
  o.allowed_di = {0, 1, 2, 4};
  GFile f = gen_file(s, o);
  std::string text = f.text();
  // a few extra definitions of keys that already exist: empty ones, with and without trailing comment
  if (!f.entries.empty() && f.cls != DC_NONE) {
    if (!f.final_nl) text += "\n";
    int extra = (int)s.below(4);
    std::string sep = f.cls == DC_BLANK ? " " : std::string(1, f.D[f.cls == DC_MIXED ? f.D.size() - 1 : 0]);
    for (int i = 0; i < extra; i++) {
      const AEntry &en = f.entries[s.below((uint32_t)f.entries.size())];
      if (en.key.empty()) continue;
      size_t k = s.below(4);
      text += en.key + sep + (k == 0 ? "" : k == 1 ? std::string(" ") + f.C[0] + " start again" : k == 2 ? "more" : std::string("again ") + f.C[0] + " c"
                                                                                                     + (f.C.size() > 1 ? std::string(" ") + f.C[1] + " d" : "")) + "\n";
    }
  }
  write_file(g_scr.dir + "/opt.conf", text);
  int optset = (int)s.below(4);
  std::string opt = "PARSING_DIRS=" + g_scr.dir + (optset & 1 ? ";JOIN_SAME_ENTRIES=1" : "") + (optset & 2 ? ";PYTHON_STYLE=1" : "");
  econf_file *kf = (econf_file *)SENT;
  econf_err e = econf_newKeyFile_with_options(&kf, opt.c_str());
  if (e == ECONF_SUCCESS) e = econf_readConfig(&kf, nullptr, nullptr, "opt", "conf", f.D.c_str(), f.C.c_str());
  g_case.mix((uint64_t)e);
  if (e == ECONF_SUCCESS && kf && kf != SENT && s.chance(40)) {
    // merge with itself / write it out: copies every string once more
    econf_file *m = (econf_file *)SENT;
    econf_err e2 = econf_mergeFiles(&m, kf, kf);
    settle(m, e2, "econf_mergeFiles(self)");
    econf_set_delimiter_tag(kf, '=');
    econf_writeFile(kf, g_scr.dir.c_str(), "opt.out");
  }
  settle(kf, e, "econf_readConfig with parsing options");
  g_case.desc = "option read opt=" + std::to_string(optset) + " D='" + esc(f.D) + "' C='" + f.C + "' file='" + esc(text) + "'";
  g_case.nontrivial = optset != 0;
  g_case.shape_hash = fnv_u64((uint64_t)optset, f.skeleton());
  leak_check("read with parsing options");
}

static void run(Src &s) {
  econf_reset_security_settings();
  size_t w = s.weighted({26, 44, 9, 9, 12});
  if (w == 4) return scenario_option_read(s);
  if (w == 0)
    scenario_history(s);
  else if (w == 1)
    scenario_tree(s);
  else if (w == 2)
    scenario_options(s);
  else
    scenario_single(s);
}

int main(int argc, char **argv) {
  Harness h;
  h.property_id = "C20";
  h.run = run;
  h.shrink_budget = 600;
  h.base = 40;
  h.per_size = 14;
  h.always_isolate = true;
  h.setup = [] { g_scr.init(); };
  h.teardown = [] { g_scr.cleanup(); };
  return engine_main(argc, argv, h);
}
