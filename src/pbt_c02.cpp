// C02 - conventional files parse to exactly the sections, keys and values written
#include "common/engine.hpp"
#include "common/fsutil.hpp"
#include "common/gen_text.hpp"
#include "common/model.hpp"

using namespace vf;
static Scratch g_scr;

static void run(Src &s) {
  GOpts o;
  o.cont_after_quoted = true;
  GFile f = gen_file(s, o);
  std::string path = g_scr.dir + "/f.conf";
  std::string text = f.text();
  write_file(path, text);
  g_case.desc = describe(f);
  tag_file_classes(f);
  g_case.shape_hash = f.skeleton();
  {
    bool diffkinds = false;
    for (size_t i = 1; i < f.lines.size(); i++) diffkinds = diffkinds || f.lines[i].kind != f.lines[i - 1].kind;
    g_case.nontrivial = !f.entries.empty() && diffkinds;
  }

  econf_file *kf = nullptr;
  // every entry point that can read one file has to deliver the same configuration
  int via = (int)s.weighted({60, 8, 12, 10, 10});
  g_case.tag(std::string("via_") + READ_VIA_NAME[via]);
  if (via) g_case.desc += std::string(" via ") + READ_VIA_NAME[via];
  econf_err e = read_via(via, g_scr.dir, "f", f.D, f.C, &kf);
  VF_CHECK(e == ECONF_SUCCESS, "read-failed", "econf_" << READ_VIA_NAME[via] << " returned " << e << " (" << econf_errString(e) << ")");
  VF_CHECK(kf != nullptr, "no-object", "success but NULL object");
  Observed ob = observe(kf);
  Model m = f.model();
  std::string d = diff_model(ob, m, true);
  if (!d.empty()) {
    std::string sh = show(ob);
    econf_freeFile(kf);
    VF_FAIL("parse-mismatch", d << "\nobserved:\n" << sh);
  }
  // bracketed section spelling denotes the same section
  if (f.cls != DC_NONE) {
    for (auto &en : f.entries) {
      if (en.section.empty()) continue;
      const MEntry *first = m.lookup(en.section, en.key);
      std::string br = "[" + en.section + "]";
      char *v = nullptr;
      econf_err e2 = econf_getStringValue(kf, br.c_str(), en.key.c_str(), &v);
      std::string got = v ? v : "";
      free(v);
      if (e2 != ECONF_SUCCESS || got != first->value) {
        econf_freeFile(kf);
        VF_FAIL("bracket-lookup", "lookup with section '" << esc(br) << "' key '" << esc(en.key) << "' rc=" << e2
                                                          << " value '" << esc(got) << "' expected '"
                                                          << esc(first->value) << "'");
      }
    }
  }
  // asking for the keys of a section the file does not have answers "no such key" and leaves the listing alone
  {
    size_t kn = 0;
    char **ks = nullptr;
    econf_err eq = econf_getKeys(kf, "vf-absent-section", &kn, &ks);
    if (eq == ECONF_SUCCESS) econf_freeArray(ks);
    Observed again = observe(kf);
    if (eq == ECONF_SUCCESS || again.groups != ob.groups) {
      econf_freeFile(kf);
      VF_FAIL("listing-changed", "econf_getKeys for an absent section: rc=" << eq << "; sections before: " << ob.groups.size() << ", after: " << again.groups.size() << "\nafter:\n" << show(again));
    }
  }
  econf_freeFile(kf);
}

int main(int argc, char **argv) {
  Harness h;
  h.property_id = "C02";
  h.run = run;
  h.base = 24;
  h.per_size = 20;
  h.setup = [] { g_scr.init(); };
  h.teardown = [] { g_scr.cleanup(); };
  return engine_main(argc, argv, h);
}
