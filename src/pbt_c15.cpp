// C15 - parsing options do what they say: JOIN_SAME_ENTRIES, PYTHON_STYLE, unknown
#include <map>

#include "common/engine.hpp"
#include "common/fsutil.hpp"
#include "common/gen_text.hpp"
#include "common/model.hpp"

using namespace vf;
static Scratch g_scr;

static std::vector<std::string> ext_values(econf_file *kf, const std::string &sec, const std::string &key, econf_err &e) {
  std::vector<std::string> v;
  econf_ext_value *ev = nullptr;
  e = econf_getExtValue(kf, sec.empty() ? nullptr : sec.c_str(), key.c_str(), &ev);
  if (e == ECONF_SUCCESS && ev) {
    for (char **p = ev->values; p && *p; p++) v.push_back(*p);
    econf_freeExtValue(ev);
  }
  return v;
}
static std::vector<std::string> strip_empty_ends(std::vector<std::string> v) {
  while (!v.empty() && v.front().empty()) v.erase(v.begin());
  while (!v.empty() && v.back().empty()) v.pop_back();
  return v;
}
static std::vector<std::string> trimmed_lines(const std::string &s) {
  std::vector<std::string> r;
  size_t p = 0;
  for (;;) {
    size_t q = s.find('\n', p);
    r.push_back(trim_blanks(s.substr(p, q == std::string::npos ? std::string::npos : q - p)));
    if (q == std::string::npos) break;
    p = q + 1;
  }
  return r;
}
static std::string show_v(const std::vector<std::string> &v) {
  std::string r = "[";
  for (auto &x : v) r += "'" + esc(x) + "',";
  return r + "]";
}

static econf_err read_with_options(const std::string &opts, const std::string &name, econf_file **out) {
  econf_file *kf = nullptr;
  econf_err e = econf_newKeyFile_with_options(&kf, opts.c_str());
  if (e != ECONF_SUCCESS) {
    if (kf) econf_freeFile(kf);
    *out = nullptr;
    return e;
  }
  e = econf_readConfig(&kf, nullptr, nullptr, name.c_str(), "conf", "=", "#");
  if (e != ECONF_SUCCESS) {
    if (kf) econf_freeFile(kf);
    kf = nullptr;
  }
  *out = kf;
  return e;
}

// ------------------------------------------------------------------ JOIN grammar
struct Def {
  std::vector<std::string> lines;  // trimmed; empty vector = empty definition
};
static void run_join(Src &s) {
  static const std::vector<std::string> secs = {"", "A", "B"};
  static const std::vector<std::string> keys = {"k1", "k2", "k3", "k1x"};  // (k1 is a proper prefix of k1x)
  Alphabet a = make_alphabet("=#\"");
  std::map<std::pair<std::string, std::string>, std::vector<Def>> defs;
  std::vector<std::pair<std::string, std::string>> order;
  std::string text, cur;
  int nlines = 0;
  bool any_reset_mid = false, any3 = false;
  for (;;) {
    auto sp = s.span();
    if (!(nlines < 30 && s.chance(88))) break;
    size_t k = s.weighted({70, 15, 8, 7});
    if (k == 1) {
      cur = secs[s.below(3)];
      if (cur.empty()) cur = "A";
      text += "[" + cur + "]\n";
      nlines++;
      continue;
    }
    if (k == 2) {
      text += "# " + gen_text(s, make_alphabet("#"), (int)s.below(8)) + "\n";
      nlines++;
      continue;
    }
    if (k == 3) {
      text += "\n";
      nlines++;
      continue;
    }
    std::string key = keys[s.below(4)];
    Def d;
    if (s.chance(25)) {
      // empty definition: "k =" (value "") or "k=" (no value)
      text += key + (s.chance(50) ? " =" : "=") + (s.chance(30) ? " " : "") + "\n";
      nlines++;
    } else {
      std::string v = gen_text(s, a, 1 + (int)s.below(8), "\"");
      text += key + (s.chance(50) ? " = " : "=") + v;
      if (s.chance(15)) text += " # " + gen_text(s, make_alphabet("#\""), (int)s.below(6));
      text += "\n";
      nlines++;
      d.lines.push_back(trim_blanks(v));
      while (s.chance(25)) {
        std::string c = gen_text(s, a, 1 + (int)s.below(8), "[");
        text += gen_blanks(s, 1, 3) + c + "\n";
        nlines++;
        d.lines.push_back(trim_blanks(c));
      }
    }
    auto id = std::make_pair(cur, key);
    if (!defs.count(id)) order.push_back(id);
    defs[id].push_back(d);
  }
  // the last line of a file need not end with a newline
  if (!text.empty() && text.back() == '\n' && s.chance(20)) {
    text.pop_back();
    g_case.tag("no_final_newline");
  }
  // layered variant: the generated file is a drop-in above a main file that defines every key once with another
  // value - the drop-in's value list (joined or not) is what the merged configuration has to show
  clear_dir(g_scr.dir);
  if (s.chance(20)) {
    std::string mainf = "only_main=1\n";
    for (const std::string &sec : secs) {
      std::string block;
      for (auto &id : order)
        if (id.first == sec) block += id.second + "=MAIN\n";
      if (block.empty()) continue;
      mainf += (sec.empty() ? std::string() : "[" + sec + "]\n") + block;
    }
    mkdir_p(g_scr.dir + "/vfj.conf.d");
    write_file(g_scr.dir + "/vfj.conf", mainf);
    write_file(g_scr.dir + "/vfj.conf.d/50-gen.conf", text);
    g_case.tag("generated_file_is_a_dropin");
  } else
    write_file(g_scr.dir + "/vfj.conf", text);
  bool join_on = !s.chance(25);
  size_t offspelling = s.below(3);  // how "off" is spelled: no option / =0 / other options only
  std::string opts = "PARSING_DIRS=" + g_scr.dir;
  if (join_on)
    opts = (s.chance(50) ? "JOIN_SAME_ENTRIES=1;" + opts : opts + ";JOIN_SAME_ENTRIES=1");
  else if (offspelling == 1)
    opts = "JOIN_SAME_ENTRIES=0;" + opts;
  for (auto &kv : defs) {
    if (kv.second.size() >= 3) any3 = true;
    for (size_t i = 1; i + 1 < kv.second.size(); i++)
      if (kv.second[i].lines.empty()) any_reset_mid = true;
  }
  g_case.desc = "JOIN opts='" + opts + "' file='" + esc(text) + "'";
  g_case.tag(join_on ? "join_on" : "join_off");
  if (any3) g_case.tag("key_with_3plus_definitions");
  if (any_reset_mid) g_case.tag("reset_in_the_middle");
  g_case.nontrivial = any3;
  uint64_t h = join_on;
  for (auto &id : order) {
    h = fnv(id.first + "." + id.second, h);
    for (auto &d : defs[id]) h = fnv_u64(d.lines.size(), h);
  }
  g_case.shape_hash = h;

  econf_file *kf = nullptr;
  econf_err e = read_with_options(opts, "vfj", &kf);
  VF_CHECK(e == ECONF_SUCCESS && kf, "read-failed", "rc=" << e << " (" << econf_errString(e) << ")");
  struct G {
    econf_file *k;
    ~G() { econf_freeFile(k); }
  } g{kf};
  for (auto &id : order) {
    auto &dl = defs[id];
    std::vector<std::string> want;
    if (join_on) {
      size_t start = 0;
      for (size_t i = 0; i < dl.size(); i++)
        if (dl[i].lines.empty()) start = i + 1;
      for (size_t i = start; i < dl.size(); i++)
        for (auto &l : dl[i].lines) want.push_back(l);
    } else
      want = dl[0].lines;
    econf_err ee;
    std::vector<std::string> got = ext_values(kf, id.first, id.second, ee);
    VF_CHECK(ee == ECONF_SUCCESS, "ext-failed", "getExtValue([" << id.first << "]," << id.second << ") rc=" << ee);
    VF_CHECK(strip_empty_ends(got) == strip_empty_ends(want), "wrong-join",
             "[" << id.first << "] " << id.second << ": values " << show_v(got) << " expected " << show_v(want) << " (" << dl.size() << " definitions, join " << (join_on ? "on" : "off") << ")");
    char *sv = nullptr;
    ee = econf_getStringValue(kf, id.first.empty() ? nullptr : id.first.c_str(), id.second.c_str(), &sv);
    std::string str = sv ? sv : "";
    free(sv);
    VF_CHECK(ee == ECONF_SUCCESS, "get-failed", "getStringValue rc=" << ee);
    VF_CHECK(strip_empty_ends(trimmed_lines(str)) == strip_empty_ends(want), "wrong-join",
             "[" << id.first << "] " << id.second << ": string value '" << esc(str) << "' is not consistent with " << show_v(want));
  }
}

// ------------------------------------------------------------------ PYTHON grammar
static void run_python(Src &s) {
  Alphabet a_key = make_alphabet("=#\"");
  Alphabet a_val = make_alphabet("");   // first-line values may contain '=' and '#'
  Alphabet a_ind = make_alphabet("");
  Model m;
  std::string text, cur;
  int nlines = 0;
  bool ind_with_delim = false, ind_with_comment = false, value_with_comment = false;
  bool python_on = !s.chance(15);
  std::vector<std::string> used;
  for (;;) {
    auto sp = s.span();
    if (!(nlines < 30 && s.chance(88))) break;
    size_t k = s.weighted({70, 12, 10, 8});
    if (k == 1) {
      cur = std::string(1, (char)('A' + s.below(3)));
      text += "[" + cur + "]\n";
      m.declare(cur);
      nlines++;
      continue;
    }
    if (k == 2) {
      text += "#" + gen_text(s, make_alphabet(""), (int)s.below(8)) + "\n";
      nlines++;
      continue;
    }
    if (k == 3) {
      text += "\n";
      nlines++;
      continue;
    }
    std::string key = gen_token(s, a_key, 1 + (int)s.below(6), "[");
    if (std::find(used.begin(), used.end(), cur + "\x01" + key) != used.end()) continue;
    used.push_back(cur + "\x01" + key);
    std::string v;
    size_t vk = s.weighted({70, 15, 15});
    if (vk == 0) v = gen_text(s, a_val, 1 + (int)s.below(10), "\"=");
    if (vk == 2) {
      v = gen_text(s, make_alphabet("#"), 1 + (int)s.below(6), "\"=") + " # " + gen_text(s, make_alphabet(""), (int)s.below(6));
      v = trim_blanks(v);
      value_with_comment = true;
    }
    std::string sep = s.chance(50) ? " = " : "=";
    if (v.empty()) sep = s.chance(50) ? " =" : "=";
    text += key + sep + v + "\n";
    nlines++;
    std::string val = v;
    while (s.chance(30)) {
      // indented line: anything, first non-blank not a comment char, not '['
      std::string body = gen_text(s, a_ind, 1 + (int)s.below(10), "#[");
      if (s.chance(30)) {
        body += "=" + gen_text(s, a_ind, (int)s.below(4));
        ind_with_delim = true;
      }
      if (s.chance(20)) {
        body += " # " + gen_text(s, a_ind, (int)s.below(4));
        ind_with_comment = true;
      }
      body = trim_blanks(body);
      if (body.find('=') != std::string::npos) ind_with_delim = true;
      text += gen_blanks(s, 1, 4) + body + "\n";
      nlines++;
      val += "\n" + body;
    }
    m.append(cur, key, val);
  }
  if (!python_on) {
    // without the option indented lines with a delimiter are entries of their own and comment characters end
    // a value: only files without such lines have a known meaning here -> skip the comparison of values
  }
  // the last line of a file need not end with a newline
  if (!text.empty() && text.back() == '\n' && s.chance(20)) {
    text.pop_back();
    g_case.tag("no_final_newline");
  }
  write_file(g_scr.dir + "/vfp.conf", text);
  std::string opts = "PARSING_DIRS=" + g_scr.dir;
  if (python_on) opts = s.chance(50) ? "PYTHON_STYLE=1;" + opts : opts + ";PYTHON_STYLE=1";
  g_case.desc = "PYTHON opts='" + opts + "' file='" + esc(text) + "'";
  g_case.tag(python_on ? "python_on" : "python_off");
  if (ind_with_delim) g_case.tag("indented_line_with_delimiter");
  if (ind_with_comment) g_case.tag("indented_line_with_comment_char");
  if (value_with_comment) g_case.tag("comment_char_after_value");
  g_case.nontrivial = ind_with_delim || ind_with_comment || value_with_comment;
  uint64_t h = 77 + python_on;
  for (char c : text) {
    if (c == '\n' || c == '=' || c == '#' || c == ' ' || c == '[') h = fnv_u64((uint64_t)c, h);
  }
  g_case.shape_hash = h;
  if (!python_on) return;  // (python_off cases only tag the distribution; C02 covers the default reader)
  econf_file *kf = nullptr;
  econf_err e = read_with_options(opts, "vfp", &kf);
  VF_CHECK(e == ECONF_SUCCESS && kf, "read-failed", "rc=" << e << " (" << econf_errString(e) << ")");
  Observed ob = observe(kf);
  econf_freeFile(kf);
  std::string d = diff_model(ob, m, true);
  VF_CHECK(d.empty(), "wrong-python", d << "\nobserved:\n" << show(ob));
}

// ------------------------------------------------------------------ option strings
static void run_options(Src &s) {
  // probe tree: directories p0..p2 (PARSING_DIRS candidates), r0..r2 (ROOT_PREFIX candidates), postfixes
  // .a.d/.b.d/.c.d (CONFIG_DIRS candidates); every candidate selects a file with a distinguishing key.
  clear_dir(g_scr.dir);
  const std::string R = g_scr.dir;
  for (int i = 0; i < 3; i++) {
    std::string pd = R + "/p" + std::to_string(i);
    mkdir_p(pd);
    write_file(pd + "/probe.conf", "where=p" + std::to_string(i) + "\nrep=1\nrep=2\nmulti=m1\n  x=y\n");
    for (int c = 0; c < 3; c++) {
      std::string dd = pd + "/probe" + std::string(c == 0 ? ".a.d" : c == 1 ? ".b.d" : ".c.d");
      mkdir_p(dd);
      // file names differ between the candidates, so that no candidate's drop-ins can hide behind another's
      write_file(dd + "/1" + std::to_string(c) + "-p" + std::to_string(i) + ".conf",
                 "postfix" + std::to_string(c) + "=p" + std::to_string(i) + "\nseen_p" + std::to_string(i) + "=1\n");
    }
    mkdir_p(pd + "/probe.conf.d");
    write_file(pd + "/probe.conf.d/50-p" + std::to_string(i) + ".conf", "seen_p" + std::to_string(i) + "=1\ndefault_dir=p" + std::to_string(i) + "\n");
    std::string rd = R + "/r" + std::to_string(i) + "/etc";
    mkdir_p(rd);
    write_file(rd + "/probe.conf", "where=r" + std::to_string(i) + "\nrep=1\nrep=2\nmulti=m1\n  x=y\n");
    for (int c = 0; c < 3; c++) {
      std::string dd = rd + "/probe" + std::string(c == 0 ? ".a.d" : c == 1 ? ".b.d" : ".c.d");
      mkdir_p(dd);
      write_file(dd + "/1" + std::to_string(c) + "-r" + std::to_string(i) + ".conf",
                 "postfix" + std::to_string(c) + "=r" + std::to_string(i) + "\nseen_r" + std::to_string(i) + "=1\n");
    }
    mkdir_p(rd + "/probe.conf.d");
    write_file(rd + "/probe.conf.d/50-r" + std::to_string(i) + ".conf", "seen_r" + std::to_string(i) + "=1\ndefault_dir=r" + std::to_string(i) + "\n");
  }
  static const char *PF[3] = {".a.d", ".b.d", ".c.d"};
  int n = (int)s.below(6);
  std::vector<std::string> items;
  int join = 0, python = 0, pdir = -1, rpre = -1;
  std::vector<int> cdirs;
  bool cdirs_set = false;
  bool bad = false, repeated = false;
  std::vector<int> kinds_seen(5, 0);
  int bad_at = s.chance(35) && n > 0 ? (int)s.below((uint32_t)n) : -1;
  for (int i = 0; i < n; i++) {
    auto sp = s.span();
    if (i == bad_at) {
      static const std::vector<std::string> wrong = {"FOO=1", "join_same_entries=1", "PYTHON_STYLE", "JOIN_SAME_ENTRIES =1",
                                                     "JOIN_SAME_ENTRIES", "PYTHONSTYLE=1", "ROOTPREFIX=/x", "PARSING_DIR=/x",
                                                     "CONFIG_DIR=.d", "UNKNOWN", "Join_Same_Entries=1", "X=Y"};
      items.push_back(s.pick(wrong));
      bad = true;
      continue;
    }
    size_t k = s.weighted({22, 22, 22, 17, 17});
    if (kinds_seen[k]) repeated = true;
    kinds_seen[k]++;
    if (k == 0) {
      int v = (int)s.below(2);
      items.push_back("JOIN_SAME_ENTRIES=" + std::to_string(v));
      join = v;
    } else if (k == 1) {
      int v = (int)s.below(2);
      items.push_back("PYTHON_STYLE=" + std::to_string(v));
      python = v;
    } else if (k == 2) {
      int d = (int)s.below(3);
      items.push_back("PARSING_DIRS=" + R + "/p" + std::to_string(d));
      pdir = d;
    } else if (k == 3) {
      cdirs.clear();
      int m = 1 + (int)s.below(2);
      std::string v;
      for (int j = 0; j < m; j++) {
        int c = (int)s.below(3);
        if (std::find(cdirs.begin(), cdirs.end(), c) != cdirs.end()) continue;
        cdirs.push_back(c);
        v += (v.empty() ? "" : ":") + std::string(PF[c]);
      }
      items.push_back("CONFIG_DIRS=" + v);
      cdirs_set = true;
    } else {
      int d = (int)s.below(3);
      items.push_back("ROOT_PREFIX=" + R + "/r" + std::to_string(d));
      rpre = d;
    }
  }
  std::string opts;
  for (size_t i = 0; i < items.size(); i++) opts += (i ? ";" : "") + items[i];
  g_case.desc = "options '" + opts + "'";
  g_case.tag(bad ? "unknown_item" : "all_documented");
  if (repeated) g_case.tag("repeated_item");
  if (n == 0) g_case.tag("empty_option_string");
  g_case.nontrivial = bad || repeated;
  g_case.shape_hash = fnv(opts.size() > R.size() ? [&] {
    std::string o2 = opts;
    size_t p;
    while ((p = o2.find(R)) != std::string::npos) o2.erase(p, R.size());
    return o2;
  }() : opts);

  econf_file *kf = nullptr;
  econf_err e = econf_newKeyFile_with_options(&kf, opts.c_str());
  if (bad) {
    if (kf) econf_freeFile(kf);
    VF_CHECK(e == ECONF_OPTION_NOT_FOUND, "unknown-option-accepted", "rc=" << e << " (" << econf_errString(e) << ") expected ECONF_OPTION_NOT_FOUND");
    return;
  }
  VF_CHECK(e == ECONF_SUCCESS && kf, "documented-option-refused", "rc=" << e << " (" << econf_errString(e) << ") for an option string made of documented items");
  // probe read: which file is selected?
  bool expect_file = pdir >= 0 || rpre >= 0;
  // PARSING_DIRS given: those directories; else ROOT_PREFIX/etc; else the real defaults (nothing there)
  e = econf_readConfig(&kf, nullptr, "/usr/lib", "probe", "conf", "=", "#");
  if (!expect_file) {
    if (kf) econf_freeFile(kf);
    VF_CHECK(e == ECONF_NOFILE, "wrong-effect", "no directory option given: rc=" << e << " expected ECONF_NOFILE (nothing named probe.conf below the default directories)");
    return;
  }
  if (e != ECONF_SUCCESS) {
    if (kf) econf_freeFile(kf);
    VF_FAIL("wrong-effect", "probe read failed rc=" << e << " (" << econf_errString(e) << ")");
  }
  struct G {
    econf_file *k;
    ~G() { econf_freeFile(k); }
  } g{kf};
  std::string want_where = pdir >= 0 ? "p" + std::to_string(pdir) : "r" + std::to_string(rpre);
  char *sv = nullptr;
  econf_getStringValue(kf, nullptr, "where", &sv);
  std::string where = sv ? sv : "<none>";
  free(sv);
  VF_CHECK(where == want_where, "wrong-effect", "the probe file read is '" << where << "' expected '" << want_where << "' (last PARSING_DIRS / ROOT_PREFIX item)");
  // nothing of a directory named by an earlier (replaced) or unused item may be visible
  for (int i = 0; i < 3; i++)
    for (const char *fam : {"p", "r"}) {
      std::string tagname = fam + std::to_string(i);
      if (tagname == want_where) continue;
      sv = nullptr;
      econf_err ee0 = econf_getStringValue(kf, nullptr, ("seen_" + tagname).c_str(), &sv);
      free(sv);
      VF_CHECK(ee0 != ECONF_SUCCESS, "wrong-effect", "a drop-in below directory " << tagname << " was read although the last PARSING_DIRS / ROOT_PREFIX item selects " << want_where);
    }
  {
    // without CONFIG_DIRS the default drop-in directory <name>.<suffix>.d of the selected directory is visited
    sv = nullptr;
    econf_err ee0 = econf_getStringValue(kf, nullptr, "default_dir", &sv);
    std::string dd = ee0 == ECONF_SUCCESS && sv ? sv : "<none>";
    free(sv);
    VF_CHECK(dd == (cdirs_set ? std::string("<none>") : want_where), "wrong-effect",
             "default drop-in directory: default_dir='" << dd << "' with" << (cdirs_set ? "" : "out") << " a CONFIG_DIRS item, selected directory " << want_where);
  }
  // CONFIG_DIRS: exactly the postfixes of the last item are visited
  for (int c = 0; c < 3; c++) {
    std::string key = "postfix" + std::to_string(c);
    sv = nullptr;
    econf_err ee = econf_getStringValue(kf, nullptr, key.c_str(), &sv);
    bool present = ee == ECONF_SUCCESS;
    free(sv);
    bool want = cdirs_set && std::find(cdirs.begin(), cdirs.end(), c) != cdirs.end();
    VF_CHECK(present == want, "wrong-effect", "drop-in directory probe" << PF[c] << (present ? " was" : " was not") << " visited; CONFIG_DIRS (last occurrence) says otherwise");
  }
  // JOIN: rep has two definitions
  econf_err ee;
  std::vector<std::string> rep = ext_values(kf, "", "rep", ee);
  std::vector<std::string> want_rep = join ? std::vector<std::string>{"1", "2"} : std::vector<std::string>{"1"};
  VF_CHECK(rep == want_rep, "wrong-effect", "JOIN_SAME_ENTRIES=" << join << " (last occurrence) but rep = " << show_v(rep));
  // PYTHON: the indented "x=y" line continues multi
  sv = nullptr;
  econf_getStringValue(kf, nullptr, "multi", &sv);
  std::string multi = sv ? sv : "";
  free(sv);
  std::string want_multi = python ? "m1\nx=y" : "m1";
  VF_CHECK(multi == want_multi, "wrong-effect", "PYTHON_STYLE=" << python << " (last occurrence) but multi = '" << esc(multi) << "'");
}

static void run(Src &s) {
  size_t w = s.weighted({40, 35, 25});
  if (w == 0) {
    g_case.tag("sub_join");
    run_join(s);
  } else if (w == 1) {
    g_case.tag("sub_python");
    run_python(s);
  } else {
    g_case.tag("sub_options");
    run_options(s);
  }
}

int main(int argc, char **argv) {
  Harness h;
  h.property_id = "C15";
  h.run = run;
  h.base = 24;
  h.per_size = 14;
  h.setup = [] { g_scr.init(); };
  h.teardown = [] { g_scr.cleanup(); };
  return engine_main(argc, argv, h);
}
