// C06 - every file passes the caller's check before use; one rejection yields nothing
#include <signal.h>
#include <sys/stat.h>
#include <sys/wait.h>

#include <map>
#include <set>

#include "common/engine.hpp"
#include "common/fsutil.hpp"
#include "common/gen_tree.hpp"
#include "common/model.hpp"

using namespace vf;
static Scratch g_scr;

static bool has_decoy(const Observed &o, std::string &what) {
  for (auto &g : o.groups)
    if (g.compare(0, 8, "DECOYSEC") == 0) {
      what = "section " + g;
      return true;
    }
  for (auto &sk : o.keys)
    for (auto &k : sk.second)
      if (k.compare(0, 6, "DECOY_") == 0 || k == "SIDE_ONLY") {
        what = "key " + k;
        return true;
      }
  return false;
}

struct FileSwap {
  std::string write_path, real_body;
  bool is_devnull = false;
};


// ------------------------------------------------------------------ a named pipe as drop-in
// A FIFO is a file whose consultation can be observed from outside: a forked writer blocks in open() until the
// library opens the pipe for reading. The oracle is the property read literally: the library may open the pipe
// only after the callback has been shown its path and accepted it; its content is visible only then; a rejection
// gives the callback-failed code and nothing else. (Whether a library consults pipes at all is not judged.)
static void run_fifo(Src &s) {
  cleanup_tree(g_scr.dir);
  g_case.tag("fifo_dropin");
  const std::string usr = g_scr.dir + "/usr/share/fx", etc = g_scr.dir + "/etc/fx";
  mkdir_p(usr + "/app.conf.d");
  mkdir_p(etc + "/app.conf.d");
  bool main_file = s.chance(70);
  if (main_file) write_file(usr + "/app.conf", "m=usr\n");
  bool before = s.chance(50), after = s.chance(50), lower_namesake = s.chance(40);
  if (before) write_file(etc + "/app.conf.d/10-before.conf", "b=1\n");
  if (after) write_file(etc + "/app.conf.d/90-after.conf", "a=1\n");
  if (lower_namesake) write_file(usr + "/app.conf.d/50-pipe.conf", "masked=1\n");
  const std::string fifo = etc + "/app.conf.d/50-pipe.conf";
  VF_CHECK(mkfifo(fifo.c_str(), 0644) == 0, "harness", "mkfifo failed");
  size_t ep = s.below(3);      // 0 readDirsWithCallback 1 readDirsHistoryWithCallback 2 readConfigWithCallback
  size_t decision = s.below(3);  // 0 accept all, 1 reject the pipe, 2 reject the file behind it (or accept all)
  static const char *EPN[3] = {"readDirsWithCallback", "readDirsHistoryWithCallback", "readConfigWithCallback"};
  g_case.desc = std::string("fifo drop-in via ") + EPN[ep] + " decision=" + std::to_string(decision) + (main_file ? " main" : "") +
                (before ? " before" : "") + (after ? " after" : "") + (lower_namesake ? " lower-namesake" : "");
  g_case.nontrivial = true;
  g_case.shape_hash = fnv_u64(ep * 64 + decision * 16 + main_file * 8 + before * 4 + after * 2 + lower_namesake, 0xf1f0);
  fflush(nullptr);
  pid_t w = fork();
  VF_CHECK(w >= 0, "harness", "fork failed");
  if (w == 0) {
    int fd = open(fifo.c_str(), O_WRONLY);  // returns when the library opens the pipe
    if (fd < 0) _exit(3);
    const char body[] = "[PIPESEC]\nPIPE_KEY=1\n";
    if (write(fd, body, sizeof body - 1) < 0) _exit(4);
    close(fd);
    _exit(0);
  }
  CbCtx cb;
  bool pipe_shown = false, pipe_accepted = false;
  cb.decide = [&](const char *fn) {
    std::string p = collapse_slashes(fn ? fn : "");
    if (p == collapse_slashes(fifo)) {
      pipe_shown = true;
      pipe_accepted = decision != 1;
      return pipe_accepted;
    }
    if (decision == 2 && base_name(p) == "90-after.conf") return false;
    return true;
  };
  const void *cbdata[2] = {&cb, nullptr};
  econf_err rc;
  econf_file *kf = (econf_file *)-1;
  econf_file **hist = (econf_file **)-1;
  size_t hn = 0;
#pragma GCC diagnostic push
#pragma GCC diagnostic ignored "-Wdeprecated-declarations"
  if (ep == 0)
    rc = econf_readDirsWithCallback(&kf, usr.c_str(), etc.c_str(), "app", "conf", "=", "#", tree_callback, cbdata);
  else if (ep == 1)
    rc = econf_readDirsHistoryWithCallback(&hist, &hn, usr.c_str(), etc.c_str(), "app", "conf", "=", "#", tree_callback, cbdata);
  else {
    econf_err e0 = econf_newKeyFile_with_options(&kf, ("PARSING_DIRS=" + usr + ":" + etc).c_str());
    VF_CHECK(e0 == ECONF_SUCCESS, "harness", "options object");
    rc = econf_readConfigWithCallback(&kf, nullptr, nullptr, "app", "conf", "=", "#", tree_callback, cbdata);
  }
#pragma GCC diagnostic pop
  // was the pipe opened by the library? (the writer is past its open() exactly then)
  bool consulted = false;
  for (int i = 0; i < 200; i++) {
    int st = 0;
    pid_t r = waitpid(w, &st, WNOHANG);
    if (r == w) {
      consulted = WIFEXITED(st) && WEXITSTATUS(st) != 3;
      w = -1;
      break;
    }
    if (i >= 20) break;  // still blocked in open(): never opened by the library
    usleep(1000);
  }
  if (w > 0) {
    kill(w, SIGKILL);
    waitpid(w, nullptr, 0);
  }
  bool visible = false;
  std::string shown;
  auto look = [&](econf_file *f) {
    Observed o = observe(f);
    for (auto &g : o.groups) visible = visible || g == "PIPESEC";
    for (auto &sk : o.keys)
      for (auto &k : sk.second) visible = visible || k == "PIPE_KEY";
    shown += show(o);
  };
  bool handed = false;
  if (ep == 1) {
    handed = hist != (econf_file **)-1 && hist != nullptr;
    if (handed && rc == ECONF_SUCCESS) {
      for (size_t i = 0; i < hn; i++) {
        look(hist[i]);
        econf_freeFile(hist[i]);
      }
      free(hist);
    }
  } else if (kf != (econf_file *)-1 && kf != nullptr) {
    look(kf);
    handed = ep != 2 || rc == ECONF_SUCCESS;  // readConfig hands the caller's own object back
    econf_freeFile(kf);
  }
  cleanup_tree(g_scr.dir);
  std::string ctx = g_case.desc + ": rc=" + std::to_string(rc) + " pipe " + (consulted ? "opened" : "not opened") + ", " +
                    (pipe_shown ? (pipe_accepted ? "shown and accepted" : "shown and rejected") : "never shown to the callback");
  if (consulted) g_case.tag("fifo_consulted");
  VF_CHECK(!consulted || (pipe_shown && pipe_accepted), "unchecked-file-opened", ctx << ": the library opened a file the callback had not accepted");
  VF_CHECK(!visible || (pipe_shown && pipe_accepted), "unchecked-content-visible", ctx << ": content of the pipe is visible\n" << shown);
  bool rejected = (pipe_shown && !pipe_accepted) || (decision == 2 && after && cb.log.size() && base_name(cb.log.back()) == "90-after.conf");
  if (rejected) {
    g_case.tag("with_rejection");
    VF_CHECK(rc == ECONF_PARSING_CALLBACK_FAILED, "wrong-code", ctx << ": expected ECONF_PARSING_CALLBACK_FAILED");
    VF_CHECK(!(handed && (ep == 1 || visible)), "partial-result", ctx << ": something was handed back after a rejection\n" << shown);
  }
}

// ------------------------------------------------------------------ the same directory given twice
// Both directory arguments (or two PARSING_DIRS items) name the same directory: its files are consulted once per
// layer. However often a file is consulted, the number of checks equals the number of consultations the history
// shows, and refusing the n-th check fails the call.
static void run_same_dir_twice(Src &s) {
  cleanup_tree(g_scr.dir);
  g_case.tag("same_directory_twice");
  const std::string D = g_scr.dir + "/both";
  mkdir_p(D + "/app.conf.d");
  if (s.chance(70)) write_file(D + "/app.conf", "m=1\n");
  int nd = 1 + (int)s.below(3);
  for (int i = 0; i < nd; i++) write_file(D + "/app.conf.d/" + std::to_string(10 * (i + 1)) + "-d.conf", "d" + std::to_string(i) + "=1\n");
  const bool via_config = s.chance(40);
  g_case.desc = std::string("same directory twice via ") + (via_config ? "readConfigWithCallback(PARSING_DIRS=D:D)" : "readDirsHistoryWithCallback(D, D)") + ", " + std::to_string(nd) + " drop-ins";
  g_case.nontrivial = true;
  g_case.shape_hash = fnv_u64((uint64_t)nd * 2 + via_config, 0xd0d0);
  size_t calls_accept_all = 0, members = 0;
  for (size_t refuse_at = 0;; refuse_at++) {  // 0: accept everything; n: refuse the n-th check
    CbCtx cb;
    size_t ncall = 0;
    cb.decide = [&](const char *) { return ++ncall != refuse_at; };
    const void *cbdata[2] = {&cb, nullptr};
    econf_err rc;
    bool handed = false;
    if (via_config) {
      econf_file *kf = nullptr;
      econf_err e0 = econf_newKeyFile_with_options(&kf, ("PARSING_DIRS=" + D + ":" + D).c_str());
      VF_CHECK(e0 == ECONF_SUCCESS, "harness", "options object");
      econf_file *mine = kf;
      rc = econf_readConfigWithCallback(&kf, nullptr, nullptr, "app", "conf", "=", "#", tree_callback, cbdata);
      handed = kf != nullptr && kf != mine;
      if (kf) econf_freeFile(kf);
    } else {
      econf_file **hist = (econf_file **)-1;
      size_t hn = 3;
#pragma GCC diagnostic push
#pragma GCC diagnostic ignored "-Wdeprecated-declarations"
      rc = econf_readDirsHistoryWithCallback(&hist, &hn, D.c_str(), D.c_str(), "app", "conf", "=", "#", tree_callback, cbdata);
#pragma GCC diagnostic pop
      handed = hist != (econf_file **)-1 && hist != nullptr;
      if (handed && rc == ECONF_SUCCESS) {
        if (refuse_at == 0) members = hn;
        for (size_t i = 0; i < hn; i++) econf_freeFile(hist[i]);
        free(hist);
      }
    }
    if (refuse_at == 0) {
      VF_CHECK(rc == ECONF_SUCCESS, "read-failed", g_case.desc << ": accept-all read rc=" << rc);
      calls_accept_all = cb.log.size();
      if (!via_config)
        VF_CHECK(members == calls_accept_all, "unchecked-file-consulted",
                 g_case.desc << ": the history has " << members << " members but the callback was called " << calls_accept_all << " times");
    } else {
      g_case.tag("with_rejection");
      VF_CHECK(rc == ECONF_PARSING_CALLBACK_FAILED, "wrong-code", g_case.desc << ": check number " << refuse_at << " of " << calls_accept_all << " refused, rc=" << rc);
      VF_CHECK(!(handed && rc != ECONF_SUCCESS && !via_config), "partial-result", g_case.desc << ": a history was handed back after a rejection");
    }
    if (refuse_at >= calls_accept_all) break;
  }
  g_case.evals = calls_accept_all + 1;
  cleanup_tree(g_scr.dir);
}

static void run(Src &s) {
  econf_reset_security_settings();
  cleanup_tree(g_scr.dir);  // nothing may leak from a previous (failed) case
  TreeOpts to;
  to.max_consulted = 6;
  // entry point: 0 readConfigWithCallback, 1 readDirsWithCallback, 2 readDirsHistoryWithCallback, 3 readFileWithCallback
  size_t ep = s.weighted({40, 22, 22, 16, 5, 4});
  if (ep == 4) return run_fifo(s);
  if (ep == 5) return run_same_dir_twice(s);
  if (ep == 1 || ep == 2) to.only_twodirs = true;
  if (ep == 0 || ep == 3) to.allow_twodirs = false;
  Params pa = gen_params(s, to);
  if (pa.scheme == S_TWODIRS) {
    pa.dirarg_mode[0] = pa.dirarg_mode[1] = 0;
    if (pa.confdirs_mode == 1 || pa.confdirs_mode == 3) pa.confdirs_mode = 0;
  }
  Tree t = gen_tree(s, pa, to);
  std::vector<Consulted> cons = consulted_files(t, pa);
  const std::string D = DELIMS[pa.di].d;
  const std::string sep = D == " " ? " " : D.substr(0, 1);
  static const char *EPN[4] = {"readConfigWithCallback", "readDirsWithCallback", "readDirsHistoryWithCallback",
                               "readFileWithCallback"};
  if (ep == 3) {
    // single file: any consulted file of the tree, read on its own
    if (cons.empty()) {
      g_case.desc = "no consulted file for a single-file case";
      return;
    }
    Consulted c = cons[s.below((uint32_t)cons.size())];
    cons.clear();
    c.masked = false;
    cons.push_back(c);
  }
  // decoys: every consulted file initially holds content that must never become visible
  std::vector<std::string> real_text(cons.size());
  for (size_t i = 0; i < cons.size(); i++) {
    TFile *f = cons[i].file;
    real_text[i] = (f->kind == F_REGULAR || f->kind == F_LINK_REGULAR) ? f->text : std::string();
    // (an empty file stays empty in some cases: a file without content is consulted, and checked, like any other)
    if (f->kind != F_DEVNULL && !(f->kind == F_EMPTY && s.chance(50))) {
      f->has_override = true;
      f->raw_override = "[DECOYSEC" + std::to_string(i) + "]\nDECOY_" + std::to_string(i) + sep + "1\n";
    }
  }
  // rejection sets: empty, every singleton, two random larger ones
  std::vector<std::set<size_t>> sets;
  sets.push_back({});
  for (size_t i = 0; i < cons.size(); i++) sets.push_back({i});
  for (int k = 0; k < 2 && cons.size() >= 2; k++) {
    std::set<size_t> r;
    for (size_t i = 0; i < cons.size(); i++)
      if (s.chance(35)) r.insert(i);
    if (r.size() >= 2) sets.push_back(r);
  }
  int cookie_store[4];
  const void *cookie = s.chance(15) ? nullptr : (const void *)&cookie_store[s.below(4)];

  // restrictions that every file of the tree satisfies may be in force: the caller's check is still owed
  // (bit 0: permission bits every generated file and directory has; bit 1: our own uid; bit 2: our own gid)
  // a check need not have a context: the callback may be registered with a NULL data pointer
  const bool null_data = cookie == nullptr && s.chance(60);
  if (null_data) g_case.tag("callback_registered_with_null_data");
  // the callback may itself read a configuration through the library (a policy file, say)
  const bool reentrant = s.chance(12);
  if (reentrant) g_case.tag("callback_reads_a_configuration");
  size_t restr = s.chance(25) ? 1 + s.below(7) : 0;
  struct ResetGuard {
    ~ResetGuard() { econf_reset_security_settings(); }
  } reset_guard;
  if (restr & 1) econf_requirePermissions(S_IRUSR, S_IXUSR);
  if (restr & 2) econf_requireOwner(geteuid());
  if (restr & 4) econf_requireGroup(getegid());
  if (restr) g_case.tag("satisfied_restrictions_in_force");

  g_case.desc = std::string(EPN[ep]) + " " + describe(t, pa) + " consulted=" + std::to_string(cons.size()) +
                (restr ? " satisfied-restrictions=" + std::to_string(restr) : std::string());
  g_case.tag(std::string("ep_") + EPN[ep]);
  g_case.nontrivial = cons.size() >= 2;
  g_case.shape_hash = fnv_u64(ep, tree_shape(t, pa));
  g_case.evals = sets.size();
  bool any_masked = false;
  for (auto &c : cons) any_masked = any_masked || c.masked;
  if (any_masked) g_case.tag("has_masked_dropin");
  if (cons.size() >= 2) g_case.tag("multi_file");

  std::vector<std::string> want_all;
  for (auto &c : cons) want_all.push_back(collapse_slashes(c.path(g_scr.dir)));
  // single file: half of the time it is named relative to the working directory (= the scratch root); the
  // callback must then see exactly that name
  std::string single_name;
  if (ep == 3) {
    single_name = cons[0].path(g_scr.dir);
    if (s.chance(50)) {
      single_name = collapse_slashes(cons[0].rel).substr(1);  // strip the leading slash
      if (s.chance(30)) single_name = "./" + single_name;
      want_all[0] = single_name;
      g_case.tag("relative_single_file");
    }
  }
  Model exp = expected_model(cons);

  for (auto &rej : sets) {
    cleanup_tree(g_scr.dir);
    materialise(t, pa, g_scr.dir);
    std::map<std::string, FileSwap> swaps;
    for (size_t i = 0; i < cons.size(); i++) {
      FileSwap fs;
      TFile *f = cons[i].file;
      fs.is_devnull = f->kind == F_DEVNULL;
      fs.write_path = f->kind == F_LINK_REGULAR ? f->link_target : cons[i].path(g_scr.dir);
      fs.real_body = real_text[i];
      swaps[want_all[i]] = fs;
    }
    size_t first_rej = cons.size();
    for (size_t i : rej) first_rej = std::min(first_rej, i);
    CbCtx cb;
    cb.expect_data = cookie;
    cb.null_data = null_data;
    if (reentrant) {
      // a side tree the callback consults through the library itself
      mkdir_p(g_scr.dir + "/vfside/usr/pol.conf.d");
      mkdir_p(g_scr.dir + "/vfside/etc/pol.conf.d");
      write_file(g_scr.dir + "/vfside/usr/pol.conf", "allow=1\n");
      write_file(g_scr.dir + "/vfside/usr/pol.conf.d/10-p.conf", "SIDE_ONLY=1\n");
      write_file(g_scr.dir + "/vfside/etc/pol.conf.d/20-q.conf", "SIDE_ONLY=2\n");
    }
    cb.decide = [&](const char *fn) {
      if (reentrant) {
        econf_file *side = nullptr;
#pragma GCC diagnostic push
#pragma GCC diagnostic ignored "-Wdeprecated-declarations"
        econf_err se = econf_readDirs(&side, (g_scr.dir + "/vfside/usr").c_str(), (g_scr.dir + "/vfside/etc").c_str(), "pol", "conf", "=", "#");
#pragma GCC diagnostic pop
        if (se == ECONF_SUCCESS && side) econf_freeFile(side);
      }
      std::string p = collapse_slashes(fn ? fn : "");
      auto it = swaps.find(p);
      if (it == swaps.end()) return true;  // "." / ".." pseudo files
      size_t idx = 0;
      for (size_t i = 0; i < want_all.size(); i++)
        if (want_all[i] == p) idx = i;
      if (rej.count(idx)) return false;  // keeps its decoy
      if (!it->second.is_devnull) write_file(it->second.write_path, it->second.real_body);
      return true;
    };
    std::string ctx = "rejected={";
    for (size_t i : rej) ctx += std::to_string(i) + ",";
    ctx += "}";
    ReadResult rr;
    Observed ob;
    bool have = false;
    std::vector<Observed> hob;
    if (ep == 3) {
      const void *cbdata[2] = {&cb, cookie};
      if (null_data) g_cb_for_null_data = &cb;
      econf_file *kf = (econf_file *)-1;
      rr.rc = econf_readFileWithCallback(&kf, single_name.c_str(), D.c_str(), "#", tree_callback, null_data ? nullptr : (const void *)cbdata);
      rr.kf = kf == (econf_file *)-1 ? nullptr : kf;
      if (kf == (econf_file *)-1 && rr.rc == ECONF_SUCCESS) VF_FAIL("no-object", ctx << ": success without object");
    } else {
      rr = read_tree(t, pa, g_scr.dir, ep == 0 ? RM_CONFIG_CB : ep == 1 ? RM_DIRS_CB : RM_HIST_CB, &cb);
    }
    if (rr.kf) {
      ob = observe(rr.kf);
      have = true;
    }
    bool hist_handed = rr.hist_mode && rr.hist != nullptr && rr.hist != (econf_file **)-1;
    if (hist_handed && rr.rc == ECONF_SUCCESS)
      for (size_t i = 0; i < rr.hist_size; i++) hob.push_back(observe(rr.hist[i]));
    bool caller_obj = rr.caller_object;
    if (rr.kf) econf_freeFile(rr.kf);
    if (hist_handed && rr.rc == ECONF_SUCCESS) free_hist(rr);
    std::string shown = have ? "\nobserved:\n" + show(ob) : std::string();

    // callback log: prefix of consulted up to and including the first rejected file
    std::vector<std::string> got;
    for (auto &p : cb.log) {
      std::string b = base_name(p);
      if (b == "." || b == "..") continue;
      got.push_back(collapse_slashes(p));
    }
    std::vector<std::string> want(want_all.begin(), want_all.begin() + (long)std::min(cons.size(), first_rej + 1));
    if (got != want) {
      std::string m = ctx + ": callback saw:";
      for (auto &x : got) m += "\n  " + x;
      m += "\nexpected:";
      for (auto &x : want) m += "\n  " + x;
      VF_FAIL("wrong-callback-sequence", m);
    }
    VF_CHECK(cb.data_ok, "callback-data", ctx << ": callback data pointer was not passed through unchanged");
    std::string what;
    if (have && has_decoy(ob, what))
      VF_FAIL("unchecked-content-visible", ctx << ": " << what << " of a file that was not accepted (or was read before its check) is visible" << shown);
    for (auto &h : hob)
      if (has_decoy(h, what)) VF_FAIL("unchecked-content-visible", ctx << ": history member shows " << what);

    if (rej.empty()) {
      if (cons.empty()) {
        if (!(pseudo_files_consulted(t, pa) && rr.rc == ECONF_SUCCESS))
          VF_CHECK(rr.rc == ECONF_NOFILE, "wrong-code", ctx << ": nothing consulted, rc=" << rr.rc);
        continue;
      }
      VF_CHECK(rr.rc == ECONF_SUCCESS, "read-failed", ctx << ": accept-all read failed rc=" << rr.rc << " (" << econf_errString(rr.rc) << ")");
      if (rr.hist_mode) {
        // pseudo files "." / ".." may add members
        size_t real = 0;
        (void)real;
        VF_CHECK(hist_handed, "no-history", ctx << ": success without history");
        // the history lists the files consulted, the callback log the files checked: every consulted file was checked
        VF_CHECK(hob.size() == cb.log.size(), "unchecked-file-consulted",
                 ctx << ": the history has " << hob.size() << " members but the callback was called " << cb.log.size() << " times");
      } else {
        VF_CHECK(have, "no-object", ctx << ": success without object");
        std::string d = diff_model(ob, exp, false);
        if (!d.empty() && known_open("first-dropin-unmasked") && !cons.empty() && cons[0].is_dropin && cons[0].masked) {
          std::vector<Consulted> alt = cons;
          alt[0].masked = false;
          if (diff_model(ob, expected_model(alt), false).empty()) {
            g_case.known.push_back("first-dropin-unmasked");
            d.clear();
          }
        }
        VF_CHECK(d.empty(), "wrong-result", ctx << ": " << d << "\nexpected:\n" << show(exp) << shown);
      }
    } else {
      g_case.tag("with_rejection");
      if (first_rej > 0) g_case.tag("rejected_not_first");
      if (cons[first_rej].masked) g_case.tag("rejected_masked");
      VF_CHECK(rr.rc == ECONF_PARSING_CALLBACK_FAILED, "wrong-code",
               ctx << ": rc=" << rr.rc << " (" << econf_errString(rr.rc) << ") expected ECONF_PARSING_CALLBACK_FAILED" << shown);
      if (have) {
        bool keyless = ob.groups.empty() && (ob.keys.empty() || ob.keys[0].second.empty());
        // readConfig: the caller's own options object, unchanged; two-directory entry points allocate
        // the object before reading and leave it key-less
        VF_CHECK(keyless && (caller_obj || ep == 1), "partial-result", ctx << ": a configuration was handed back after a rejection" << shown);
      }
      VF_CHECK(!hist_handed, "partial-result", ctx << ": a history was handed back after a rejection");
    }
  }
  cleanup_tree(g_scr.dir);
}

int main(int argc, char **argv) {
  Harness h;
  h.property_id = "C06";
  h.run = run;
  h.base = 40;
  h.per_size = 16;
  h.setup = [] {
    g_scr.init();
    if (chdir(g_scr.dir.c_str()) != 0) perror("chdir");
  };
  h.teardown = [] {
    if (chdir("/") != 0) perror("chdir");
    g_scr.cleanup();
  };
  return engine_main(argc, argv, h);
}
