// C18 - threads working on their own configuration objects do not disturb each other
//
// Built with -fsanitize=thread. A case = N thread programs (data produced by the
// main thread from the choice sequence). Every program is first run serially and
// a digest per operation is recorded; then all programs run concurrently behind a
// barrier. Oracle: per-thread digests equal the serial ones, and ThreadSanitizer
// reports no race (the two documented last-error-location globals are suppressed
// by name through TSAN_OPTIONS=suppressions=...).
#include <pthread.h>
#include <sched.h>

#include <atomic>
#include <mutex>
#include <thread>

#include "common/engine.hpp"
#include "common/fsutil.hpp"
#include "common/gen_hist.hpp"
#include "common/gen_text.hpp"
#include "common/model.hpp"

using namespace vf;
static Scratch g_scr;
static std::atomic<int> g_tsan_reports{0};

// ThreadSanitizer calls this weak hook for every report it prints
extern "C" void __tsan_on_report(void *) { g_tsan_reports++; }

enum OpKind { O_NEW = 0, O_SET, O_GET, O_LIST, O_WRITE, O_READFILE, O_READCONFIG, O_READDIRS, O_MERGE, O_FREE, O_ERRSTR, O_PATHTAGS, O_YIELD, O_NOPS };
struct Op {
  int kind;
  int slot, slot2;
  int a, b;         // small selectors
  int burst = 1;    // O_WRITE / O_READFILE: repeated that often in a row (short windows need many tries to overlap)
  std::string s1, s2;
};
struct Program {
  std::vector<Op> ops;
  std::string dir;  // private directory
  std::string rel;  // the same directory relative to the working directory of the process
};

static uint64_t dump_hash(econf_file *kf, const std::string &scrub_dir) {
  std::string d = full_dump(kf, true);
  size_t p;
  while ((p = d.find(scrub_dir)) != std::string::npos) d.replace(p, scrub_dir.size(), "<T>");
  return fnv(d);
}

static void exec_program(const Program &P, std::vector<uint64_t> &dig) {
  econf_file *slots[3] = {nullptr, nullptr, nullptr};
  for (const Op &op : P.ops) {
    econf_file *&kf = slots[op.slot];
    uint64_t h = (uint64_t)op.kind;
    econf_err e = ECONF_SUCCESS;
    switch (op.kind) {
      case O_NEW:
        if (kf) econf_freeFile(kf);
        kf = nullptr;
        e = op.a == 0 ? econf_newKeyFile(&kf, '=', '#') : op.a == 1 ? econf_newIniFile(&kf) : econf_newKeyFile_with_options(&kf, op.s1.c_str());
        if (kf) {
          econf_set_delimiter_tag(kf, '=');
          econf_set_comment_tag(kf, '#');
        }
        break;
      case O_SET:
        if (!kf) break;
        if (op.a == 0) e = econf_setStringValue(kf, SEC_ARGS[op.b].arg, op.s1.c_str(), op.s2.c_str());
        else if (op.a == 1) e = econf_setInt64Value(kf, SEC_ARGS[op.b].arg, op.s1.c_str(), (int64_t)op.s2.size() * 1234567);
        else if (op.a == 2) e = econf_setBoolValue(kf, SEC_ARGS[op.b].arg, op.s1.c_str(), op.s2.size() % 2 ? "Yes" : "false");
        else if (op.a == 4) {
          // many new keys at once: the entry array of this private object grows past its initial capacity
          int nk = 9 + (int)(op.s2.size() * 3);
          for (int i = 0; i < nk && e == ECONF_SUCCESS; i++)
            e = econf_setStringValue(kf, SEC_ARGS[op.b].arg, (op.s1 + "-" + std::to_string(i)).c_str(), op.s2.c_str());
        }
        else e = econf_setDoubleValue(kf, SEC_ARGS[op.b].arg, op.s1.c_str(), (double)op.s2.size() / 3.0);
        break;
      case O_GET: {
        if (!kf) break;
        char *v = nullptr;
        e = econf_getStringValue(kf, SEC_ARGS[op.b].arg, op.s1.c_str(), &v);
        if (e == ECONF_SUCCESS) {
          h = fnv(v ? v : "<null>", h);
          free(v);
        }
        int64_t iv = 0;
        econf_err e2 = econf_getInt64Value(kf, SEC_ARGS[op.b].arg, op.s1.c_str(), &iv);
        h = fnv_u64((uint64_t)e2 * 7 + (e2 ? 0 : (uint64_t)iv), h);
        bool bv = false;
        e2 = econf_getBoolValue(kf, SEC_ARGS[op.b].arg, op.s1.c_str(), &bv);
        h = fnv_u64((uint64_t)e2 * 2 + (e2 ? 0 : bv), h);
        double dv = 0;
        e2 = econf_getDoubleValueDef(kf, SEC_ARGS[op.b].arg, op.s1.c_str(), &dv, 2.5);
        h = fnv_u64((uint64_t)e2 * 1000 + (uint64_t)(dv * 100), h);
        econf_ext_value *ev = nullptr;
        e2 = econf_getExtValue(kf, SEC_ARGS[op.b].norm[0] ? SEC_ARGS[op.b].norm : nullptr, op.s1.c_str(), &ev);
        if (e2 == ECONF_SUCCESS && ev) {
          for (char **p = ev->values; p && *p; p++) h = fnv(*p, h);
          h = fnv_u64(ev->line_number, h);
          econf_freeExtValue(ev);
        }
        break;
      }
      case O_LIST:
        if (kf) h = fnv_u64(dump_hash(kf, P.dir), h);
        break;
      case O_WRITE:
        if (!kf) break;
        for (int rep = 0; rep < op.burst; rep++) {
          // (the file is created anew every time, so that its mode is the one this write gave it)
          unlink((P.dir + "/written.conf").c_str());
          e = econf_writeFile(kf, P.dir.c_str(), "written.conf");
          if (e == ECONF_SUCCESS) {
            std::string b;
            read_file_bytes(P.dir + "/written.conf", b);
            h = fnv(b, h);
            struct stat wst;
            if (stat((P.dir + "/written.conf").c_str(), &wst) == 0) h = fnv_u64((uint64_t)(wst.st_mode & 07777), h);
          }
          h = fnv_u64((uint64_t)e, h);
        }
        break;
      case O_READFILE: {
        if (kf) econf_freeFile(kf);
        kf = nullptr;
        // half of the reads name the file relative to the (common) working directory
        // (op.a == 4: a directory where a file is expected - read as a file without content)
        std::string f = (op.b % 2 ? P.rel : P.dir) + (op.a == 4 ? std::string("/l1") : op.a == 3 ? std::string("/big.conf") : "/file" + std::to_string(op.a) + ".conf");
        for (int rep = 0; rep < op.burst; rep++) {
          if (kf) econf_freeFile(kf);
          kf = nullptr;
          e = econf_readFile(&kf, f.c_str(), op.s1.c_str(), op.s2.c_str());
          if (e != ECONF_SUCCESS) kf = nullptr;
          if (op.burst > 1) h = fnv_u64((uint64_t)e * 31 + (kf ? dump_hash(kf, P.dir) : 0), h);
        }
        break;
      }
      case O_READCONFIG: {
        if (kf) econf_freeFile(kf);
        kf = nullptr;
        const std::string &base = op.slot2 % 2 ? P.rel : P.dir;
        std::string opt = "PARSING_DIRS=" + base + "/l1:" + base + "/l2" + (op.a ? ";JOIN_SAME_ENTRIES=1" : "");
        e = econf_newKeyFile_with_options(&kf, opt.c_str());
        if (e == ECONF_SUCCESS) e = econf_readConfig(&kf, nullptr, nullptr, "app", op.b ? "conf" : ".conf", "=", "#");
        if (e != ECONF_SUCCESS && kf) {
          econf_freeFile(kf);
          kf = nullptr;
        }
        break;
      }
      case O_READDIRS: {
        if (kf) econf_freeFile(kf);
        kf = nullptr;
#pragma GCC diagnostic push
#pragma GCC diagnostic ignored "-Wdeprecated-declarations"
        e = econf_readDirs(&kf, (P.dir + "/l1").c_str(), (P.dir + "/l2").c_str(), "app", "conf", "=", "#");
#pragma GCC diagnostic pop
        if (e != ECONF_SUCCESS && kf) {
          econf_freeFile(kf);
          kf = nullptr;
        }
        break;
      }
      case O_MERGE: {
        econf_file *a = slots[op.slot], *b = slots[op.slot2];
        if (!a || !b) break;
        econf_file *m = nullptr;
        e = econf_mergeFiles(&m, a, b);
        int dst = 3 - op.slot - op.slot2;
        if (dst < 0 || dst > 2 || dst == op.slot || dst == op.slot2) dst = op.slot;
        if (e == ECONF_SUCCESS && m) {
          h = fnv_u64(dump_hash(m, P.dir), h);
          if (slots[dst] && slots[dst] != a && slots[dst] != b) {
            econf_freeFile(slots[dst]);
            slots[dst] = m;
          } else
            econf_freeFile(m);
        }
        break;
      }
      case O_FREE:
        if (kf) econf_freeFile(kf);
        kf = nullptr;
        break;
      case O_ERRSTR:
        h = fnv(econf_errString((econf_err)(op.a % 25)), h);
        break;
      case O_PATHTAGS:
        if (kf) {
          char *p = econf_getPath(kf);
          std::string ps = p ? p : "";
          free(p);
          size_t q;
          while ((q = ps.find(P.dir)) != std::string::npos) ps.replace(q, P.dir.size(), "<T>");
          h = fnv(ps, h);
          h = fnv_u64((uint64_t)econf_delimiter_tag(kf) * 256 + (uint64_t)econf_comment_tag(kf), h);
        }
        break;
      default:
        sched_yield();
        break;
    }
    h = fnv_u64((uint64_t)e, h);
    dig.push_back(h);
  }
  for (auto &s : slots)
    if (s) econf_freeFile(s);
}

static Program gen_program(Src &s, const std::string &dir, bool &reads, bool &writes) {
  Program P;
  P.dir = dir;
  P.rel = dir.substr(dir.find_last_of('/') + 1);
  mkdir_p(dir + "/l1/app.conf.d");
  mkdir_p(dir + "/l2/app.conf.d");
  // private files: three single files (valid / with an injected error), a small two-layer tree
  GOpts o;
  o.allowed_di = {0};
  o.fixed_ci = 0;
  o.max_lines = 10;
  o.long_fields = false;
  for (int i = 0; i < 3; i++) {
    GFile f = gen_file(s, o);
    std::string t = f.text();
    if (s.chance(25)) t += "[broken\n";
    write_file(dir + "/file" + std::to_string(i) + ".conf", t);
  }
  {
    // a long file with many multi-line values: parsing it takes long enough for the threads to be inside the
    // reader at the same time, at different line numbers
    std::string big;
    int nent = 150 + (int)s.below(250), shift = (int)s.below(7);
    for (int i = 0; i < shift; i++) big += "# preamble " + std::to_string(i) + "\n";
    for (int i = 0; i < nent; i++) {
      big += "key" + std::to_string(i) + " = value " + std::to_string(i) + "\n";
      for (int c = (i + shift) % 3; c > 0; c--) big += "   continued " + std::to_string(i) + "." + std::to_string(c) + "\n";
      if (i % 17 == 0) big += "[sec" + std::to_string(i) + "]\n";
    }
    write_file(dir + "/big.conf", big);
  }
  static const char *snip[4] = {"a=1\n[S]\nb=2\n", "a=override\nc=3\n", "[S]\nb=9\nd=4\n", "x=1\nx=2\n"};
  if (s.chance(70)) write_file(dir + "/l1/app.conf", snip[s.below(4)]);
  if (s.chance(40)) write_file(dir + "/l2/app.conf", snip[s.below(4)]);
  if (s.chance(60)) write_file(dir + "/l1/app.conf.d/10-a.conf", snip[s.below(4)]);
  if (s.chance(60)) write_file(dir + "/l2/app.conf.d/10-a.conf", snip[s.below(4)]);
  if (s.chance(40)) write_file(dir + "/l2/app.conf.d/20-b.conf", s.chance(20) ? "[]\n" : snip[s.below(4)]);
  // a sub-directory that carries a drop-in name (consulted like a file without content)
  if (s.chance(25)) mkdir_p(dir + "/l2/app.conf.d/90-dir.conf");
  int n = 20 + (int)s.below(100);
  for (int i = 0; i < n; i++) {
    auto sp = s.span();
    Op op;
    op.kind = (int)s.weighted({10, 20, 16, 6, 6, 16, 7, 4, 6, 4, 2, 3, 6});
    op.slot = (int)s.below(3);
    op.slot2 = (int)s.below(3);
    op.a = (int)s.below(4);
    op.b = (int)s.below(8);
    switch (op.kind) {
      case O_NEW: op.a = (int)s.below(3); op.s1 = s.chance(50) ? "" : "JOIN_SAME_ENTRIES=1;ROOT_PREFIX=/nowhere"; break;
      case O_SET:
        op.s1 = hist_keys()[s.below((uint32_t)hist_keys().size())];
        op.s2 = gen_text(s, make_alphabet("#"), 1 + (int)s.below(10));
        if (s.chance(15)) op.a = 4;
        writes = true;
        break;
      case O_GET: op.s1 = hist_keys()[s.below((uint32_t)hist_keys().size())]; reads = true; break;
      case O_READFILE:
        op.a = (int)s.below(5);
        if (op.a >= 3) op.a = 3;  // 40 %: the big file
        if (s.chance(8)) op.a = 4;
        if (op.a != 3 && s.chance(25)) op.burst = 50 + (int)s.below(250);
        op.s1 = (op.a == 3 || s.chance(80)) ? "=" : " =";
        op.s2 = "#";
        reads = true;
        break;
      case O_READCONFIG: op.a = (int)s.below(2); op.b = (int)s.below(2); reads = true; break;
      case O_WRITE:
        writes = true;
        if (s.chance(25)) op.burst = 50 + (int)s.below(250);
        break;
      default: break;
    }
    P.ops.push_back(op);
  }
  return P;
}

// ------------------------------------------------------------------ storms
// Hot loops: every thread repeats one kind of operation thousands of times on its own objects and files, all
// threads at once. Windows of a microsecond (a process-wide setting changed and restored around a system call, a
// descriptor closed twice) are only met by volume. Each thread checks every single result against what the same
// operation gives single-threaded; nothing here depends on ThreadSanitizer seeing the conflict.
static int mode_storm(int T, int iters) {
  // (if the process dies in the storm - a sanitizer that halts, a signal - this is the replay file that remains)
  write_mode_case("storm " + std::to_string(T) + " " + std::to_string(iters), "crash", "the process did not survive the storm (sanitizer report or signal: see the log)");
  clear_dir(g_scr.dir);
  std::atomic<long> bad{0};
  std::string first_bad;
  std::mutex mu;
  auto report = [&](const std::string &m) {
    if (bad++ == 0) {
      std::lock_guard<std::mutex> lk(mu);
      first_bad = m;
    }
  };
  const mode_t mask_before = umask(027);
  econf_requirePermissions(S_IRUSR | S_IWUSR, S_IXUSR);  // in force before any thread starts; every file below satisfies it
  // reference results, single-threaded
  auto tdir = [&](int t) { return g_scr.dir + "/s" + std::to_string(t); };
  for (int t = 0; t < T; t++) {
    mkdir_p(tdir(t) + "/usr");
    mkdir_p(tdir(t) + "/etc/app.conf.d/90-dir.conf");  // a directory that carries a drop-in name
    write_file(tdir(t) + "/usr/app.conf", "a=usr" + std::to_string(t) + "\n[S]\nb=1\n");
    write_file(tdir(t) + "/etc/app.conf.d/10-x.conf", "c=drop" + std::to_string(t) + "\n");
  }
  auto one_round = [&](int t, int i, mode_t &mode, std::string &view) {
    econf_file *kf = nullptr;
    econf_newKeyFile(&kf, '=', '#');
    econf_setStringValue(kf, "S", "k", ("v" + std::to_string(t) + "-" + std::to_string(i % 7)).c_str());
    std::string out = tdir(t) + "/w.conf";
    unlink(out.c_str());
    econf_err e = econf_writeFile(kf, tdir(t).c_str(), "w.conf");
    econf_freeFile(kf);
    struct stat st;
    mode = (e == ECONF_SUCCESS && stat(out.c_str(), &st) == 0) ? (st.st_mode & 07777) : (mode_t)07777;
    econf_file *rd = nullptr;
#pragma GCC diagnostic push
#pragma GCC diagnostic ignored "-Wdeprecated-declarations"
    e = econf_readDirs(&rd, (tdir(t) + "/usr").c_str(), (tdir(t) + "/etc").c_str(), "app", "conf", "=", "#");
#pragma GCC diagnostic pop
    view = "rc=" + std::to_string(e);
    if (e == ECONF_SUCCESS && rd) {
      view += show(observe(rd));
      econf_freeFile(rd);
    }
    econf_file *w = nullptr;
    e = econf_readFile(&w, out.c_str(), "=", "#");
    view += " w:rc=" + std::to_string(e);
    if (e == ECONF_SUCCESS && w) {
      view += show(observe(w));
      econf_freeFile(w);
    }
    if (t % 2 == 0) {
      // a directory where a file is expected
      econf_file *d = nullptr;
      e = econf_readFile(&d, (tdir(t) + "/etc").c_str(), "=", "#");
      view += " d:rc=" + std::to_string(e);
      if (d) econf_freeFile(d);
    }
  };
  std::vector<mode_t> ref_mode((size_t)T);
  std::vector<std::vector<std::string>> ref_view((size_t)T, std::vector<std::string>(7));
  for (int t = 0; t < T; t++)
    for (int i = 0; i < 7; i++) one_round(t, i, ref_mode[(size_t)t], ref_view[(size_t)t][(size_t)i]);
  int before = g_tsan_reports.load();
  pthread_barrier_t bar;
  pthread_barrier_init(&bar, nullptr, (unsigned)T);
  std::vector<std::thread> th;
  for (int t = 0; t < T; t++)
    th.emplace_back([&, t] {
      pthread_barrier_wait(&bar);
      for (int i = 0; i < iters; i++) {
        mode_t m;
        std::string v;
        one_round(t, i, m, v);
        if (m != ref_mode[(size_t)t]) report("thread " + std::to_string(t) + " round " + std::to_string(i) + ": written file has mode 0" + std::to_string((m >> 6) & 7) + std::to_string((m >> 3) & 7) + std::to_string(m & 7) + ", alone it has 0" + std::to_string((ref_mode[(size_t)t] >> 6) & 7) + std::to_string((ref_mode[(size_t)t] >> 3) & 7) + std::to_string(ref_mode[(size_t)t] & 7));
        if (v != ref_view[(size_t)t][(size_t)(i % 7)]) report("thread " + std::to_string(t) + " round " + std::to_string(i) + ": results differ from the single-threaded ones:\n" + v + "\nalone:\n" + ref_view[(size_t)t][(size_t)(i % 7)]);
      }
    });
  for (auto &x : th) x.join();
  pthread_barrier_destroy(&bar);
  econf_reset_security_settings();
  mode_t mask_after = umask(mask_before);
  int reports = g_tsan_reports.load() - before;
  g_case.clear();
  g_case.evals = (uint64_t)T * (uint64_t)iters * 4;
  g_case.nontrivial = true;
  g_case.shape_hash = fnv_u64((uint64_t)T * 1000003 + (uint64_t)iters, 0x5707);
  g_case.tag("storm");
  g_case.desc = "storm: " + std::to_string(T) + " threads x " + std::to_string(iters) + " rounds of write / layered read / single read / directory read on private trees, permission requirement in force";
  std::string sym, det;
  if (bad.load()) {
    sym = "thread-result-differs";
    det = std::to_string(bad.load()) + " deviating results; first: " + first_bad;
  } else if (mask_after != 027) {
    sym = "process-state-changed";
    char b[64];
    snprintf(b, sizeof b, "the file creation mask of the process is %04o after the storm, it was 0027", (unsigned)mask_after);
    det = b;
  } else if (reports) {
    sym = "data-race";
    det = "ThreadSanitizer reported " + std::to_string(reports) + " issue(s) during the storm";
  }
  if (!sym.empty()) {
    printf("FAIL %s: %s\n", sym.c_str(), det.c_str());
    write_mode_case("storm " + std::to_string(T) + " " + std::to_string(iters), sym, det);
    stats_commit_case();
    return 10;
  }
  stats_commit_case();
  return 0;
}

static void run(Src &s) {
  clear_dir(g_scr.dir);
  int T = 2 + (int)s.weighted({30, 25, 15, 10, 8, 6, 6});  // 2..8
  if (s.chance(8)) T = 9 + (int)s.below(8);                 // up to 16
  std::vector<Program> progs;
  bool reads = false, writes = false;
  size_t nops = 0;
  for (int t = 0; t < T; t++) {
    auto sp = s.span();
    progs.push_back(gen_program(s, g_scr.dir + "/t" + std::to_string(t), reads, writes));
    nops += progs.back().ops.size();
  }
  g_case.desc = std::to_string(T) + " threads, " + std::to_string(nops) + " operations";
  g_case.tag("threads_" + std::to_string(T > 8 ? 9 : T) + (T > 8 ? "plus" : ""));
  g_case.evals = nops;
  g_case.shape_hash = fnv_u64((uint64_t)T * 100000 + nops, 9);
  for (auto &P : progs)
    for (auto &op : P.ops) g_case.shape_hash = fnv_u64((uint64_t)op.kind, g_case.shape_hash);

  // serial reference - before the concurrent run, or (half of the cases) after it, so that the concurrent run is
  // the first to touch whatever the library initialises lazily or keeps process-wide
  std::vector<std::vector<uint64_t>> ref(progs.size()), got(progs.size());
  const bool concurrent_first = s.chance(50);
  // a process-wide setting made once, before any thread starts (every generated file and directory satisfies it)
  struct ResetGuard {
    ~ResetGuard() { econf_reset_security_settings(); }
  } reset_guard;
  if (s.chance(15)) {
    econf_requirePermissions(S_IRUSR, S_IXUSR);
    g_case.tag("permission_requirement_in_force");
  }
  if (concurrent_first) g_case.tag("concurrent_run_first");
  if (!concurrent_first)
    for (size_t i = 0; i < progs.size(); i++) exec_program(progs[i], ref[i]);
  // files written by the programs are rewritten identically in the second run (same programs)
  int before = g_tsan_reports.load();
  pthread_barrier_t bar;
  pthread_barrier_init(&bar, nullptr, (unsigned)T);
  std::vector<std::thread> th;
  std::vector<std::pair<long, long>> interval(progs.size());
  auto now_ns = [] {
    struct timespec ts;
    clock_gettime(CLOCK_MONOTONIC, &ts);
    return (long)ts.tv_sec * 1000000000L + ts.tv_nsec;
  };
  for (size_t i = 0; i < progs.size(); i++)
    th.emplace_back([&, i] {
      pthread_barrier_wait(&bar);
      interval[i].first = now_ns();
      exec_program(progs[i], got[i]);
      interval[i].second = now_ns();
    });
  for (auto &t : th) t.join();
  pthread_barrier_destroy(&bar);
  if (concurrent_first)
    for (size_t i = 0; i < progs.size(); i++) exec_program(progs[i], ref[i]);
  // overlap (evidence only, never part of the verdict)
  bool overlapped = false;
  for (size_t i = 0; i < progs.size(); i++)
    for (size_t j = i + 1; j < progs.size(); j++)
      if (interval[i].first < interval[j].second && interval[j].first < interval[i].second) overlapped = true;
  if (overlapped) g_case.tag("intervals_overlapped");
  g_case.nontrivial = overlapped && reads && writes;
  for (size_t i = 0; i < progs.size(); i++) {
    if (got[i] != ref[i]) {
      size_t k = 0;
      while (k < got[i].size() && k < ref[i].size() && got[i][k] == ref[i][k]) k++;
      VF_FAIL("thread-result-differs", "thread " << i << " of " << T << ": operation " << k << " (kind " << (k < progs[i].ops.size() ? progs[i].ops[k].kind : -1)
                                                 << ") gave a different result than when its program ran alone");
    }
  }
  int reports = g_tsan_reports.load() - before;
  VF_CHECK(reports == 0, "data-race", "ThreadSanitizer reported " << reports << " issue(s) during this case (see the report on stderr)");
}

int main(int argc, char **argv) {
  Harness h;
  h.property_id = "C18";
  h.run = run;
  h.shrink_budget = 250;
  h.base = 64;
  h.per_size = 40;
  h.setup = [] {
    g_scr.init();
    if (chdir(g_scr.dir.c_str()) != 0) perror("chdir");  // thread directories are t0, t1, ... below it
  };
  h.teardown = [] {
    if (chdir("/") != 0) perror("chdir");
    g_scr.cleanup();
  };
  h.extra = [](const std::string &mode, int argc, char **argv) -> int {
    if (mode == "storm" && argc >= 2) return mode_storm(atoi(argv[0]), atoi(argv[1]));
    return -1;
  };
  return engine_main(argc, argv, h);
}
